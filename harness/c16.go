package main

import (
	"bytes"
	"context"
	"encoding/binary"
	"encoding/json"
	"fmt"
	"io"
	"sort"
	"strings"
	"time"

	"github.com/streamingfast/bstream"
	pbbstream "github.com/streamingfast/bstream/pb/sf/bstream/v1"
	"github.com/streamingfast/dstore"
	"google.golang.org/protobuf/proto"
	"google.golang.org/protobuf/types/known/anypb"
	"google.golang.org/protobuf/types/known/timestamppb"
)

// C16: block files (dbin framing + protobuf blocks) and one-block file names.
//
// Every case runs the REAL code: bstream.NewDBinBlockWriter / NewDBinBlockReader (+ the
// verif-tagged hook VerifReadRawMessage for the framing-level observation), BlockFileNameWithSuffix,
// TruncateBlockID, ParseFilename, FetchBlockFromOneBlockStore, FetchBlockFromMergedBlocksStore.

// ---------------------------------------------------------------- inputs

type c16Blk struct {
	Num        uint64 `json:"num"`
	ID         []byte `json:"id"`
	Parent     []byte `json:"parent"`
	HasTS      bool   `json:"has_ts,omitempty"`
	Sec        int64  `json:"sec,omitempty"`
	Nanos      int32  `json:"nanos,omitempty"`
	Lib        uint64 `json:"lib"`
	Kind       int32  `json:"kind,omitempty"`
	PVer       int32  `json:"pver,omitempty"`
	PBuf       []byte `json:"pbuf,omitempty"`
	Head       uint64 `json:"head,omitempty"`
	PNum       uint64 `json:"pnum,omitempty"`
	HasPayload bool   `json:"has_payload,omitempty"`
	URL        []byte `json:"url,omitempty"`
	Val        []byte `json:"val,omitempty"`
}

type c16Fault struct {
	Trunc bool `json:"trunc,omitempty"`
	Pos   int  `json:"pos"`
	Val   int  `json:"val,omitempty"`
}

type c16Query struct {
	Num uint64 `json:"num"`
	ID  []byte `json:"id"`
}

type c16Input struct {
	Kind      string     `json:"kind"` // round | faults | name | parse | fetch | merged
	Blocks    []c16Blk   `json:"blocks,omitempty"`
	Region    string     `json:"region,omitempty"` // trunc | magic | version | ctlen | ctype | msglen | body
	Mode      string     `json:"mode,omitempty"`   // all | allvalues | alloffsets | explicit
	FaultSeed uint64     `json:"fault_seed,omitempty"`
	Faults    []c16Fault `json:"faults,omitempty"`
	Suffix    []byte     `json:"suffix,omitempty"`
	Text      []byte     `json:"text,omitempty"`
	Queries   []c16Query `json:"queries,omitempty"`
	Damage    int        `json:"damage,omitempty"` // fetch: 1+index of the stored file that is cut (0 = none)
	DamageCut int        `json:"damage_cut,omitempty"`
	AllocCap  int        `json:"alloc_cap,omitempty"` // faults: largest length prefix handed to dbin
}

const c16AllocCapQuick = 2 << 20     // a (corrupted) length prefix above this is never handed to dbin
const c16AllocCapThorough = 64 << 20 // (thorough tier)
const c16Watchdog = 3 * time.Second

// ---------------------------------------------------------------- conversions

func (b c16Blk) pb() *pbbstream.Block {
	out := &pbbstream.Block{
		Number: b.Num, Id: string(b.ID), ParentId: string(b.Parent), LibNum: b.Lib,
		PayloadKind: pbbstream.Protocol(b.Kind), PayloadVersion: b.PVer, PayloadBuffer: b.PBuf,
		HeadNum: b.Head, ParentNum: b.PNum,
	}
	if b.HasTS {
		out.Timestamp = &timestamppb.Timestamp{Seconds: b.Sec, Nanos: b.Nanos}
	}
	if b.HasPayload {
		out.Payload = &anypb.Any{TypeUrl: string(b.URL), Value: b.Val}
	}
	return out
}

func c16FromPB(p *pbbstream.Block) c16Blk {
	b := c16Blk{Num: p.Number, ID: []byte(p.Id), Parent: []byte(p.ParentId), Lib: p.LibNum,
		Kind: int32(p.PayloadKind), PVer: p.PayloadVersion, PBuf: p.PayloadBuffer, Head: p.HeadNum, PNum: p.ParentNum}
	if p.Timestamp != nil {
		b.HasTS, b.Sec, b.Nanos = true, p.Timestamp.Seconds, p.Timestamp.Nanos
	}
	if p.Payload != nil {
		b.HasPayload, b.URL, b.Val = true, []byte(p.Payload.TypeUrl), p.Payload.Value
	}
	return b
}

type c16Meta struct {
	Num    uint64
	ID     string
	Parent string
	HasTS  bool
	Sec    int64
	Nanos  int32
	Lib    uint64
	PNum   uint64
}

func coqTS(has bool, sec int64, nanos int32) string {
	if !has {
		return "None"
	}
	return fmt.Sprintf("(Some (%s, %s))", coqZ(sec), coqZ(int64(nanos)))
}

func (b c16Blk) coq() string {
	kind := b.Kind
	if kind < 0 {
		kind = 0
	}
	pl := "None"
	if b.HasPayload {
		pl = fmt.Sprintf("(Some (mkAny %s %s))", coqBytes(string(b.URL)), coqBytes(string(b.Val)))
	}
	return fmt.Sprintf("(mkBlk %d %s %s %s %d %d %s %s %d %d %s)", b.Num, coqBytes(string(b.ID)), coqBytes(string(b.Parent)),
		coqTS(b.HasTS, b.Sec, b.Nanos), b.Lib, kind, coqZ(int64(b.PVer)), coqBytes(string(b.PBuf)), b.Head, b.PNum, pl)
}

func (m c16Meta) coq() string {
	return fmt.Sprintf("(mkMeta %d %s %s %s %d %d)", m.Num, coqBytes(m.ID), coqBytes(m.Parent), coqTS(m.HasTS, m.Sec, m.Nanos), m.Lib, m.PNum)
}

func c16CoqBlks(bs []c16Blk) string {
	items := make([]string, len(bs))
	for i, b := range bs {
		items[i] = b.coq()
	}
	return coqList(items)
}

func c16CoqStrs(ms [][]byte) string {
	items := make([]string, len(ms))
	for i, m := range ms {
		items[i] = coqBytes(string(m))
	}
	return coqList(items)
}

// ---------------------------------------------------------------- running the real reader / writer

type c16ReadObs struct {
	CType   *string // header content type when the reader could be opened
	Blocks  []*pbbstream.Block
	Metas   []c16Meta
	Raw     [][]byte
	End     string // eof | err | hdr | panic | hang
	PanicAt string
}

// guarded runs f with recover and a watchdog.
func c16Guard(f func()) (end string, panicText string) {
	done := make(chan struct{})
	go func() {
		defer close(done)
		defer func() {
			if p := recover(); p != nil {
				end = "panic"
				panicText = fmt.Sprint(p)
			}
		}()
		f()
	}()
	select {
	case <-done:
		return end, panicText
	case <-time.After(c16Watchdog):
		return "hang", ""
	}
}

// mode: "block" (Read), "meta" (ReadAsBlockMeta), "raw" (readMessage with the identity decoder)
func c16Read(data []byte, mode string) *c16ReadObs { return c16ReadMax(data, mode, -1) }

// maxReads >= 0: stop (end "huge") before read number maxReads+1
func c16ReadMax(data []byte, mode string, maxReads int) *c16ReadObs {
	obs := &c16ReadObs{}
	var end string
	gend, ptxt := c16Guard(func() {
		r, err := bstream.NewDBinBlockReader(bytes.NewReader(data))
		if err != nil {
			end = "hdr"
			return
		}
		ct := r.Header.ContentType
		obs.CType = &ct
		for n := 0; ; n++ {
			if n > len(data)+2 {
				end = "hang" // more messages than bytes: the loop does not consume its input
				return
			}
			if maxReads >= 0 && n >= maxReads {
				end = "huge"
				return
			}
			var err error
			switch mode {
			case "block":
				var b *pbbstream.Block
				b, err = r.Read()
				if err == nil {
					obs.Blocks = append(obs.Blocks, b)
				}
			case "meta":
				var m *pbbstream.BlockMeta
				m, err = r.ReadAsBlockMeta()
				if err == nil {
					mm := c16Meta{Num: m.Number, ID: m.Id, Parent: m.ParentId, Lib: m.LibNum, PNum: m.ParentNum}
					if m.Timestamp != nil {
						mm.HasTS, mm.Sec, mm.Nanos = true, m.Timestamp.Seconds, m.Timestamp.Nanos
					}
					obs.Metas = append(obs.Metas, mm)
				}
			default:
				var raw []byte
				raw, err = bstream.VerifReadRawMessage(r)
				if err == nil {
					obs.Raw = append(obs.Raw, raw)
				}
			}
			if err == io.EOF {
				end = "eof"
				return
			}
			if err != nil {
				end = "err"
				return
			}
		}
	})
	if gend != "" {
		end = gend
		obs.PanicAt = ptxt
	}
	obs.End = end
	return obs
}

func coqEnd(e string) string {
	switch e {
	case "eof":
		return "EEof"
	case "err":
		return "EErr"
	case "hdr":
		return "EHdr"
	case "panic":
		return "EPanic"
	case "huge":
		return "EHuge"
	default:
		return "EHang"
	}
}

// c16Write runs the real writer; it stops at the first error.
func c16Write(pbs []*pbbstream.Block) (file []byte, ok bool, panicked bool) {
	buf := bytes.NewBuffer(nil)
	ok = true
	end, _ := c16Guard(func() {
		w, err := bstream.NewDBinBlockWriter(buf)
		if err != nil {
			ok = false
			return
		}
		for _, b := range pbs {
			if err := w.Write(b); err != nil {
				ok = false
				return
			}
		}
	})
	if end != "" {
		return buf.Bytes(), false, true
	}
	return buf.Bytes(), ok, false
}

// c16SafeReads walks the bytes the way dbin does: the number of ReadMessage calls that can be
// made before one whose length prefix exceeds cap (huge = true), or -1 when there is none.
func c16SafeReads(data []byte, cap uint64) (reads int, huge bool) {
	if len(data) < 5 || string(data[:4]) != "dbin" {
		return -1, false
	}
	pos := 5
	switch data[4] {
	case 0:
		pos += 5
	case 1:
		if len(data) < 7 {
			return -1, false
		}
		pos = 7 + int(binary.BigEndian.Uint16(data[5:7]))
	default:
		return -1, false
	}
	if pos > len(data) {
		return -1, false
	}
	for {
		rem := len(data) - pos
		if rem == 0 {
			return -1, false
		}
		var lb [4]byte
		copy(lb[:], data[pos:])
		l := uint64(binary.BigEndian.Uint32(lb[:]))
		if l > cap {
			return reads, true
		}
		reads++
		if rem < 4 || l == 0 || uint64(rem-4) < l {
			return -1, false
		}
		pos += 4 + int(l)
	}
}

// ---------------------------------------------------------------- generators

var c16Heights = []uint64{0, 1, 2, 9, 10, 99, 100, 12345, 999999999, 9999999999, 10000000000, 1<<32 - 1, 1 << 32, 1<<32 + 1, 1<<63 - 1, 1 << 63, 1<<64 - 2, 1<<64 - 1}
var c16URLs = []string{"type.googleapis.com/sf.ethereum.type.v2.Block", "type.googleapis.com/sf.bstream.type.v1.TestBlock", "t/T", "ETH", "x", strings.Repeat("type.url/", 30) + "Z"}

func c16Height(r *Rng) uint64 {
	if r.Chance(45) {
		return r.Pick(c16Heights)
	}
	switch r.Intn(3) {
	case 0:
		return r.U64()
	case 1:
		return r.U64() >> uint(r.Intn(64))
	default:
		return uint64(r.Intn(100000))
	}
}

func c16Bytes(r *Rng, n int) []byte {
	b := make([]byte, n)
	for i := range b {
		b[i] = byte(r.Intn(256))
	}
	return b
}

// ids: unique per index in their last 16 characters unless shape says otherwise
func c16ID(r *Rng, idx int, forName bool) []byte {
	switch r.Intn(12) {
	case 0:
		if forName {
			return []byte{}
		}
		return []byte(fmt.Sprintf("%02x", idx))
	case 1:
		return []byte(fmt.Sprintf("%02x", idx)) // short
	case 2:
		return []byte(fmt.Sprintf("%014x%02x", r.U64()>>8, idx)) // exactly 16
	case 3:
		return []byte(fmt.Sprintf("%015x%02x", r.U64()>>4, idx)) // 17
	case 4:
		return []byte(fmt.Sprintf("%048x%014x%02x", r.U64(), r.U64()>>8, idx)) // 64
	case 5:
		if forName {
			return []byte(fmt.Sprintf("a-b-%014x%02x", r.U64()>>8, idx)) // dashes before the last 16
		}
		return []byte(fmt.Sprintf("héllo-ünicode-%02x", idx))
	case 6:
		if forName {
			return []byte(fmt.Sprintf("%08x-%06x%02x", r.U64()>>32, r.U64()>>40, idx)) // dash inside the last 16
		}
		return []byte(fmt.Sprintf("0x%018X%02x", r.U64(), idx))
	case 7:
		if forName {
			return []byte(fmt.Sprintf("héllo-wörld-ünicode-%02x", idx)) // truncation cuts a UTF-8 sequence
		}
		fallthrough
	default:
		return []byte(fmt.Sprintf("%016x%02x%02x", r.U64(), r.Intn(256), idx)) // 20 hex
	}
}

func c16GenBlock(r *Rng, idx int, prev []byte, legacyOK bool, unsupportedOK bool) c16Blk {
	b := c16Blk{Num: c16Height(r), ID: c16ID(r, idx, false), Parent: prev, Lib: c16Height(r)}
	if r.Chance(30) {
		b.Parent = c16ID(r, 200+idx, false)
	}
	switch r.Intn(5) {
	case 0:
	case 1:
		b.HasTS, b.Sec, b.Nanos = true, 0, 0
	case 2:
		b.HasTS, b.Sec, b.Nanos = true, int64(r.U64()>>20)-(1<<40), int32(r.Intn(1000000000))
	default:
		b.HasTS, b.Sec, b.Nanos = true, 1600000000+int64(r.Intn(100000000)), int32(r.Intn(1000000000))
	}
	if r.Chance(50) {
		b.PNum = c16Height(r)
	} else if b.Num > 0 {
		b.PNum = b.Num - 1
	}
	if legacyOK && r.Chance(25) {
		// legacy block: no payload, deprecated fields populated
		kinds := []int32{0, 1, 2, 5, 6}
		if unsupportedOK {
			kinds = []int32{0, 1, 2, 3, 4, 5, 6}
		}
		b.Kind = kinds[r.Intn(len(kinds))]
		b.PVer = int32(r.Intn(4))
		b.PBuf = c16Bytes(r, r.Intn(40))
		b.Head = c16Height(r)
		if r.Chance(30) {
			b.PNum = 0
		}
		return b
	}
	b.HasPayload = true
	b.URL = []byte(c16URLs[r.Intn(len(c16URLs))])
	switch r.Intn(6) {
	case 0:
		b.Val = nil
	case 1:
		b.Val = c16Bytes(r, 1+r.Intn(4))
	case 2:
		b.Val = bytes.Repeat([]byte{0}, r.Intn(20)) // zero bytes: zero-padding of a short read is invisible in content
	case 3:
		b.Val = c16Bytes(r, 100+r.Intn(200))
	default:
		b.Val = c16Bytes(r, r.Intn(60))
	}
	if r.Chance(10) { // deprecated fields next to a payload
		b.Kind, b.PVer, b.PBuf, b.Head = int32(r.Intn(6)), int32(r.Intn(3)), c16Bytes(r, r.Intn(8)), c16Height(r)
	}
	return b
}

// a well-formed sequence: the first block has a payload
func c16GenSeq(r *Rng, n int, unsupportedOK bool) []c16Blk {
	out := make([]c16Blk, 0, n)
	var prev []byte
	url := []byte(c16URLs[r.Intn(len(c16URLs))])
	for i := 0; i < n; i++ {
		b := c16GenBlock(r, i, prev, i > 0, unsupportedOK)
		if b.HasPayload && r.Chance(85) {
			b.URL = url
		}
		out = append(out, b)
		prev = b.ID
	}
	return out
}

func c16GenRound(r *Rng) c16Input {
	n := 1 + r.Intn(5)
	bs := c16GenSeq(r, n, true)
	switch r.Intn(14) {
	case 0: // the first block is a legacy block: the writer cannot produce a header
		bs[0].HasPayload, bs[0].URL, bs[0].Val = false, nil, nil
		bs[0].Kind = 2
	case 1:
		bs = nil // nothing written at all
	case 2: // empty type URL on the first block
		bs[0].URL = nil
	case 3: // a block whose encoding is empty, after the first
		bs = append(bs, c16Blk{})
		if r.Bool() {
			bs = append(bs, c16GenBlock(r, 9, nil, true, false))
		}
	case 4: // invalid UTF-8 in a string field: proto.Marshal fails
		k := r.Intn(len(bs))
		bs[k].ID = append([]byte{0xff, 0xfe}, bs[k].ID...)
	case 5: // duplicated block
		bs = append(bs, bs[r.Intn(len(bs))])
	}
	return c16Input{Kind: "round", Blocks: bs}
}

// c16GenRetry: sequences in which some Write calls fail (no type URL for the header, a block that
// does not marshal) and the same writer goes on being used
func c16GenRetry(r *Rng) c16Input {
	n := 2 + r.Intn(5)
	bs := c16GenSeq(r, n, false)
	bad := func(k int) {
		switch r.Intn(3) {
		case 0: // legacy block: no type URL (fails only while the header is still to be written)
			bs[k].HasPayload, bs[k].URL, bs[k].Val = false, nil, nil
			bs[k].Kind = int32(1 + r.Intn(2))
		case 1: // empty type URL
			bs[k].HasPayload, bs[k].URL = true, nil
		default: // invalid UTF-8 in a string field: proto.Marshal fails
			bs[k].ID = append([]byte{0xff, 0xfe}, bs[k].ID...)
		}
	}
	switch r.Intn(4) {
	case 0, 1:
		bad(0)
		if r.Chance(40) && n > 2 {
			bad(1)
		}
	case 2:
		bad(r.Intn(n))
	default:
		bad(0)
		bad(r.Intn(n))
	}
	return c16Input{Kind: "retry", Blocks: bs}
}

func c16GenFaults(r *Rng, sel int, tier string) c16Input {
	n := 1 + r.Intn(4)
	bs := c16GenSeq(r, n, false)
	for i := range bs { // keep payloads small enough for exhaustive enumeration
		if len(bs[i].Val) > 80 {
			bs[i].Val = bs[i].Val[:80]
		}
	}
	in := c16Input{Kind: "faults", Blocks: bs, FaultSeed: r.U64(), AllocCap: c16AllocCapQuick}
	if tier == "thorough" {
		in.AllocCap = c16AllocCapThorough
	}
	switch sel {
	case 0:
		in.Region, in.Mode = "trunc", "all"
	case 1:
		in.Region, in.Mode = "body", "allvalues"
	case 2:
		in.Region, in.Mode = "body", "alloffsets"
	case 3:
		in.Region, in.Mode = "msglen", "all"
	default:
		switch r.Intn(5) {
		case 0:
			in.Region, in.Mode = "magic", "all"
		case 1:
			in.Region, in.Mode = "version", "all"
		case 2:
			in.Region, in.Mode = "ctlen", "all"
		case 3:
			in.Region, in.Mode = "ctype", "alloffsets"
		default:
			in.Region, in.Mode = "ctype", "allvalues"
		}
	}
	return in
}

func c16GenName(r *Rng) c16Input {
	b := c16Blk{Num: c16Height(r), ID: c16ID(r, r.Intn(256), true), Parent: c16ID(r, r.Intn(256), true), Lib: c16Height(r)}
	suffixes := []string{"generated", "mindread1", "", "x", "a-b", "ünï", "0"}
	return c16Input{Kind: "name", Blocks: []c16Blk{b}, Suffix: []byte(suffixes[r.Intn(len(suffixes))])}
}

func c16GenParse(r *Rng) c16Input {
	base := c16GenName(r)
	b := base.Blocks[0]
	s := bstream.BlockFileNameWithSuffix(b.pb(), string(base.Suffix))
	parts := strings.Split(s, "-")
	numTexts := []string{"4294967295", "4294967296", "18446744073709551615", "18446744073709551616", "0000000000", "+5", "-5", "", "00000000000000000000005", "5a", " 5", "1e3", "0x10", "1_0", "٣", "99999999999999999999999999"}
	switch r.Intn(14) {
	case 0:
		i := r.Intn(len(parts))
		parts = append(parts[:i], parts[i+1:]...)
	case 1:
		i := r.Intn(len(parts) + 1)
		parts = append(parts[:i], append([]string{[]string{"", "0", "x"}[r.Intn(3)]}, parts[i:]...)...)
	case 2:
		parts[0] = numTexts[r.Intn(len(numTexts))]
	case 3:
		if len(parts) > 3 {
			parts[3] = numTexts[r.Intn(len(numTexts))]
		}
	case 4:
		bb := []byte(s)
		if len(bb) > 0 {
			bb[r.Intn(len(bb))] = byte(r.Intn(256))
		}
		return c16Input{Kind: "parse", Text: bb}
	case 5:
		return c16Input{Kind: "parse", Text: []byte(strings.Repeat("-", r.Intn(8)))}
	case 6:
		return c16Input{Kind: "parse", Text: []byte(s[:r.Intn(len(s)+1)])}
	case 7:
		return c16Input{Kind: "parse", Text: c16Bytes(r, r.Intn(40))}
	case 8:
		return c16Input{Kind: "parse", Text: []byte("")}
	case 9:
		return c16Input{Kind: "parse", Text: []byte(s + "-")}
	case 10:
		return c16Input{Kind: "parse", Text: []byte("0000000100-aaaabbbb24a07267-ccccdddde5914b39-90-mind1")}
	default:
	}
	return c16Input{Kind: "parse", Text: []byte(strings.Join(parts, "-"))}
}

// hex ids only (dstore's MockStore refuses file names containing "err")
func c16FetchID(r *Rng, idx int) []byte {
	switch r.Intn(6) {
	case 0:
		return []byte(fmt.Sprintf("%02x", idx))
	case 1:
		return []byte(fmt.Sprintf("%014x%02x", r.U64()>>8, idx))
	case 2:
		return []byte(fmt.Sprintf("%048x%014x%02x", r.U64(), r.U64()>>8, idx))
	default:
		return []byte(fmt.Sprintf("%016x%02x%02x", r.U64(), r.Intn(256), idx))
	}
}

func c16GenFetch(r *Rng) c16Input {
	n := 2 + r.Intn(5)
	base := c16Height(r)
	if base > 1<<63 {
		base = r.Pick([]uint64{1<<64 - 4, 1<<64 - 2, 9999999998, 1<<32 - 2})
	}
	var bs []c16Blk
	var prev []byte
	for i := 0; i < n; i++ {
		b := c16GenBlock(r, i, prev, false, false)
		b.ID = c16FetchID(r, i)
		b.Parent = c16FetchID(r, 100+i)
		b.Num = base + uint64(r.Intn(3)) // several blocks per height, neighbouring heights (may wrap)
		if len(b.Val) > 40 {
			b.Val = b.Val[:40]
		}
		if r.Chance(8) && i > 0 { // same id at another height
			b.ID = bs[r.Intn(len(bs))].ID
		}
		bs = append(bs, b)
		prev = b.ID
	}
	in := c16Input{Kind: "fetch", Blocks: bs, Suffix: []byte("s")}
	for _, b := range bs {
		in.Queries = append(in.Queries, c16Query{b.Num, b.ID}, c16Query{b.Num - 1, b.ID}, c16Query{b.Num + 1, b.ID})
		switch r.Intn(4) {
		case 0:
			in.Queries = append(in.Queries, c16Query{b.Num, append([]byte("0x"), b.ID...)})
		case 1:
			if len(b.ID) > 16 {
				in.Queries = append(in.Queries, c16Query{b.Num, b.ID[len(b.ID)-16:]})
			}
		case 2:
			in.Queries = append(in.Queries, c16Query{b.Num, []byte("zz")})
		default:
			if len(b.ID) > 3 {
				in.Queries = append(in.Queries, c16Query{b.Num, b.ID[1:]})
			}
		}
	}
	in.Queries = append(in.Queries, c16Query{base + 7, bs[0].ID}, c16Query{0, bs[0].ID})
	if r.Chance(25) {
		in.Damage = 1 + r.Intn(n)
		in.DamageCut = r.Intn(64)
	}
	return in
}

func c16GenMerged(r *Rng) c16Input {
	n := 1 + r.Intn(6)
	var bs []c16Blk
	var prev []byte
	num := uint64(r.Intn(20))
	for i := 0; i < n; i++ {
		b := c16GenBlock(r, i, prev, false, false)
		b.ID = c16FetchID(r, i)
		b.Num = num
		if len(b.Val) > 40 {
			b.Val = b.Val[:40]
		}
		num += uint64(1 + r.Intn(4))
		if num > 99 {
			break
		}
		bs = append(bs, b)
		prev = b.ID
	}
	if len(bs) > 0 && bs[len(bs)-1].Num == 0 {
		bs[len(bs)-1].Num = uint64(1 + r.Intn(50)) // block 0 as the last block of the store: corpus only (it hangs)
	}
	in := c16Input{Kind: "merged", Blocks: bs}
	for _, b := range bs {
		in.Queries = append(in.Queries, c16Query{Num: b.Num})
	}
	in.Queries = append(in.Queries, c16Query{Num: uint64(r.Intn(100))})
	// Y1: the numbers around every stored block (gaps, the number after the last block), the same numbers in the next
	// bundle (its file does not exist), the last number of the bundle: the answer must be not-found exactly when no
	// block of the bundle has the number (merged_exact_y1)
	for _, b := range bs {
		if b.Num > 0 {
			in.Queries = append(in.Queries, c16Query{Num: b.Num - 1})
		}
		in.Queries = append(in.Queries, c16Query{Num: b.Num + 1})
	}
	if len(bs) > 0 {
		in.Queries = append(in.Queries, c16Query{Num: 100 + bs[0].Num}, c16Query{Num: 99}, c16Query{Num: 100})
	}
	return in
}

func c16Gen(r *Rng, i int, tier string) any {
	switch i % 12 {
	case 0:
		return c16GenRound(r)
	case 10:
		if r.Chance(50) {
			return c16GenRetry(r)
		}
		return c16GenRound(r)
	case 1:
		return c16GenFaults(r, 0, tier)
	case 2:
		return c16GenFaults(r, 1, tier)
	case 3:
		return c16GenFaults(r, 2, tier)
	case 4:
		return c16GenFaults(r, 3, tier)
	case 5:
		return c16GenFaults(r, 4, tier)
	case 6:
		return c16GenName(r)
	case 7, 11:
		return c16GenParse(r)
	case 8:
		return c16GenFetch(r)
	default:
		if i%24 == 9 {
			return c16GenMerged(r)
		}
		return c16GenName(r)
	}
}

// ---------------------------------------------------------------- executors

type c16RoundObs struct {
	WriteOK    bool     `json:"write_ok"`
	WritePanic bool     `json:"write_panic,omitempty"`
	FileLen    int      `json:"file_len"`
	CType      *string  `json:"ctype"`
	Blocks     []string `json:"blocks"` // projection: id/number/parent/lib/timestamp/payload hash
	End        string   `json:"end"`
	MetaEnd    string   `json:"meta_end"`
	Panic      string   `json:"panic,omitempty"`
}

func c16Project(p *pbbstream.Block) string {
	h := uint64(14695981039346656037)
	for _, c := range p.GetPayload().GetValue() {
		h = (h ^ uint64(c)) * 1099511628211
	}
	ts := "nil"
	if p.Timestamp != nil {
		ts = fmt.Sprintf("%d.%d", p.Timestamp.Seconds, p.Timestamp.Nanos)
	}
	return fmt.Sprintf("id=%q num=%d parent=%q lib=%d ts=%s url=%q payload#%016x/%d", p.Id, p.Number, p.ParentId, p.LibNum, ts, p.GetPayload().GetTypeUrl(), h, len(p.GetPayload().GetValue()))
}

func coqOptBytes(s *string) string {
	if s == nil {
		return "None"
	}
	return "(Some " + coqBytes(*s) + ")"
}

func c16ExecRound(in *c16Input) (*Case, error) {
	pbs := make([]*pbbstream.Block, len(in.Blocks))
	encs := make([]string, len(in.Blocks))
	allEnc := true
	for i, b := range in.Blocks {
		pbs[i] = b.pb()
		m, err := proto.Marshal(pbs[i])
		if err != nil {
			encs[i] = "None"
			allEnc = false
		} else {
			encs[i] = "(Some " + coqBytes(string(m)) + ")"
			if len(m) == 0 {
				allEnc = false
			}
		}
	}
	file, wok, wpanic := c16Write(pbs)
	blk := c16Read(file, "block")
	meta := c16Read(file, "meta")
	obs := &c16RoundObs{WriteOK: wok, WritePanic: wpanic, FileLen: len(file), CType: blk.CType, End: blk.End, MetaEnd: meta.End, Panic: blk.PanicAt + meta.PanicAt}
	got := make([]string, len(blk.Blocks))
	for i, p := range blk.Blocks {
		obs.Blocks = append(obs.Blocks, c16Project(p))
		if i < len(pbs) && proto.Equal(p, pbs[i]) {
			got[i] = "None" // identical to the input block at this position
		} else {
			got[i] = "(Some " + c16FromPB(p).coq() + ")"
		}
	}
	metas := make([]string, len(meta.Metas))
	for i, m := range meta.Metas {
		metas[i] = "(Some " + m.coq() + ")"
		if i < len(in.Blocks) {
			b := in.Blocks[i]
			if m.Num == b.Num && m.ID == string(b.ID) && m.Parent == string(b.Parent) && m.HasTS == b.HasTS && m.Sec == b.Sec && m.Nanos == b.Nanos && m.Lib == b.Lib && m.PNum == b.PNum {
				metas[i] = "None" // the meta of the input block at this position
			}
		}
	}
	cs := &Case{Obs: obs, Nontrivial: len(in.Blocks) > 0}
	cs.Coq = fmt.Sprintf("CRound %s %s %d %d %s %s %s %s %s %s %s", c16CoqBlks(in.Blocks), coqList(encs), len(file), c16WSum(file),
		coqBool(wok), coqBool(wpanic), coqOptBytes(blk.CType), coqList(got), coqEnd(blk.End), coqList(metas), coqEnd(meta.End))
	switch {
	case wpanic || blk.End == "panic" || blk.End == "hang" || meta.End == "panic" || meta.End == "hang":
		cs.Class = "round/crash"
	case !wok:
		cs.Class = "round/unwritable"
	case !allEnc:
		cs.Class = "round/empty-encoding"
	default:
		legacy, unsup := false, false
		for _, b := range in.Blocks {
			if !b.HasPayload {
				legacy = true
				if b.Kind == 3 || b.Kind == 4 {
					unsup = true
				}
			}
		}
		switch {
		case unsup:
			cs.Class = "round/legacy-unsupported"
		case legacy:
			cs.Class = "round/legacy"
		default:
			cs.Class = "round/modern"
		}
	}
	cs.Key = "round:" + string(file) + fmt.Sprint(len(in.Blocks))
	return cs, nil
}

// c16ExecRetry uses ONE writer for every block of the sequence, whatever the earlier calls
// returned: every block whose Write returned nil must be read back.
func c16ExecRetry(in *c16Input) (*Case, error) {
	pbs := make([]*pbbstream.Block, len(in.Blocks))
	encs := make([]string, len(in.Blocks))
	for i, b := range in.Blocks {
		pbs[i] = b.pb()
		m, err := proto.Marshal(pbs[i])
		if err != nil {
			encs[i] = "None"
		} else {
			encs[i] = "(Some " + coqBytes(string(m)) + ")"
		}
	}
	buf := bytes.NewBuffer(nil)
	oks := make([]bool, 0, len(pbs))
	end, _ := c16Guard(func() {
		w, err := bstream.NewDBinBlockWriter(buf)
		if err != nil {
			return
		}
		for _, b := range pbs {
			oks = append(oks, w.Write(b) == nil)
		}
	})
	wpanic := end != ""
	file := buf.Bytes()
	var accepted []*pbbstream.Block
	okStr := make([]string, len(oks))
	nFail := 0
	for i, ok := range oks {
		okStr[i] = coqBool(ok)
		if ok {
			accepted = append(accepted, pbs[i])
		} else {
			nFail++
		}
	}
	blk := c16Read(file, "block")
	got := make([]string, len(blk.Blocks))
	var proj []string
	for i, p := range blk.Blocks {
		proj = append(proj, c16Project(p))
		if i < len(accepted) && proto.Equal(p, accepted[i]) {
			got[i] = "None"
		} else {
			got[i] = "(Some " + c16FromPB(p).coq() + ")"
		}
	}
	obs := &c16RoundObs{WriteOK: nFail == 0, WritePanic: wpanic, FileLen: len(file), CType: blk.CType, End: blk.End, Panic: blk.PanicAt, Blocks: proj}
	cs := &Case{Obs: obs, Nontrivial: len(accepted) > 0 && nFail > 0}
	cs.Coq = fmt.Sprintf("CRetry %s %s %d %d %s %s %s %s %s", c16CoqBlks(in.Blocks), coqList(encs), len(file), c16WSum(file),
		coqList(okStr), coqBool(wpanic), coqOptBytes(blk.CType), coqList(got), coqEnd(blk.End))
	switch {
	case wpanic || blk.End == "panic" || blk.End == "hang":
		cs.Class = "retry/crash"
	case nFail == 0:
		cs.Class = "retry/no-failed-write"
	case len(accepted) == 0:
		cs.Class = "retry/nothing-accepted"
	case len(oks) > 0 && !oks[0]:
		cs.Class = "retry/first-write-failed"
	default:
		cs.Class = "retry/later-write-failed"
	}
	cs.Key = "retry:" + string(file) + fmt.Sprint(oks)
	return cs, nil
}

type c16Layout struct {
	ct     []byte
	msgs   [][]byte
	starts []int // file offset of each frame's length prefix
}

// c16Parse recovers content type and messages from a file the real writer produced.
func c16ParseFile(file []byte, ct []byte) *c16Layout {
	hl := 7 + len(ct)
	if len(file) < hl {
		return nil
	}
	lay := &c16Layout{ct: ct}
	pos := hl
	for pos < len(file) {
		if len(file)-pos < 4 {
			return nil
		}
		l := int(binary.BigEndian.Uint32(file[pos:]))
		if len(file)-pos-4 < l {
			return nil
		}
		lay.starts = append(lay.starts, pos)
		lay.msgs = append(lay.msgs, file[pos+4:pos+4+l])
		pos += 4 + l
	}
	return lay
}

func c16Faults(in *c16Input, file []byte, lay *c16Layout) []c16Fault {
	if in.Mode == "explicit" {
		return in.Faults
	}
	r := &Rng{s: in.FaultSeed}
	hl := 7 + len(lay.ct)
	var out []c16Fault
	allValues := func(p int) {
		for v := 0; v < 256; v++ {
			if byte(v) != file[p] {
				out = append(out, c16Fault{Pos: p, Val: v})
			}
		}
	}
	switch in.Region {
	case "trunc":
		for n := 0; n < len(file); n++ {
			out = append(out, c16Fault{Trunc: true, Pos: n})
		}
	case "magic":
		for p := 0; p < 4; p++ {
			allValues(p)
		}
	case "version":
		allValues(4)
	case "ctlen":
		allValues(5)
		allValues(6)
	case "ctype":
		if in.Mode == "allvalues" {
			allValues(7 + r.Intn(len(lay.ct)))
		} else {
			masks := []int{1 + r.Intn(255), 0x80}
			for _, m := range masks {
				for p := 7; p < hl; p++ {
					out = append(out, c16Fault{Pos: p, Val: int(file[p]) ^ m})
				}
			}
		}
	case "msglen":
		k := r.Intn(len(lay.starts))
		for j := 0; j < 4; j++ {
			if j == 3 || in.AllocCap == c16AllocCapThorough {
				allValues(lay.starts[k] + j) // the low byte: every value
				continue
			}
			p := lay.starts[k] + j
			for _, v := range []int{1, 2, 0x7f, 0x80, 0xff, r.Intn(256), r.Intn(256), r.Intn(256)} {
				if byte(v) != file[p] {
					out = append(out, c16Fault{Pos: p, Val: v})
				}
			}
		}
	case "body":
		// offsets inside message bodies (after each 4-byte length prefix)
		var offs []int
		for k, s := range lay.starts {
			for j := 0; j < len(lay.msgs[k]); j++ {
				offs = append(offs, s+4+j)
			}
		}
		if in.Mode == "allvalues" {
			allValues(offs[r.Intn(len(offs))])
			allValues(offs[len(offs)-1]) // the last byte of the file
		} else {
			masks := []int{1 << uint(r.Intn(8)), 1 + r.Intn(255)}
			if in.AllocCap != c16AllocCapThorough {
				masks = masks[r.Intn(2):][:1] // quick tier: one mask
			}
			for _, m := range masks {
				for _, p := range offs {
					out = append(out, c16Fault{Pos: p, Val: int(file[p]) ^ m})
				}
			}
		}
	}
	return out
}

type c16FaultObs struct {
	Fault   c16Fault `json:"fault"`
	RawEnd  string   `json:"raw_end"`
	BlkEnd  string   `json:"blk_end"`
	NRaw    int      `json:"n_raw"`
	Blocks  []string `json:"blocks"` // "=i" identical to clean block i, else the projection
	Altered bool     `json:"altered,omitempty"`
}

type c16FaultsObs struct {
	FileLen  int            `json:"file_len"`
	NFaults  int            `json:"n_faults"`
	Executed int            `json:"executed"`
	Groups   int            `json:"observation_groups"`
	Skipped  int            `json:"stopped_before_huge_length"`
	Altered  int            `json:"faults_delivering_an_altered_block"`
	Crashed  int            `json:"faults_crashing"`
	Ends     map[string]int `json:"block_level_ends"`
	Examples []c16FaultObs  `json:"examples"`
}

// position-weighted byte sum (Check/C16_Check.v wsum)
func c16WSum(m []byte) uint64 {
	h := uint64(0)
	for i, c := range m {
		h += uint64(c) * uint64(i+1)
	}
	return h
}

func c16RawRef(msgs [][]byte, pos int, g []byte) (int, bool) {
	if pos < len(msgs) && bytes.Equal(msgs[pos], g) {
		return pos, true
	}
	for i, m := range msgs {
		if bytes.Equal(m, g) {
			return i, true
		}
	}
	return 0, false
}

func c16ExecFaults(in *c16Input) (*Case, error) {
	pbs := make([]*pbbstream.Block, len(in.Blocks))
	for i, b := range in.Blocks {
		pbs[i] = b.pb()
	}
	file, wok, wpanic := c16Write(pbs)
	var lay *c16Layout
	if wok && !wpanic && len(in.Blocks) > 0 {
		lay = c16ParseFile(file, in.Blocks[0].URL)
	}
	if lay == nil || len(lay.msgs) == 0 {
		// not a file faults can be injected into: report it as a round-trip case
		cs, err := c16ExecRound(in)
		if cs != nil {
			cs.Class = "faults/unwritable"
		}
		return cs, err
	}
	cleanObs := c16Read(file, "block")
	clean := cleanObs.Blocks
	cleanC := make([]string, len(clean))
	for i, p := range clean {
		if i < len(pbs) && proto.Equal(p, pbs[i]) {
			cleanC[i] = "None"
		} else {
			cleanC[i] = "(Some " + c16FromPB(p).coq() + ")"
		}
	}
	faults := c16Faults(in, file, lay)
	allocCap := in.AllocCap
	if allocCap <= 0 || allocCap > c16AllocCapThorough {
		allocCap = c16AllocCapQuick
	}
	obs := &c16FaultsObs{FileLen: len(file), NFaults: len(faults), Ends: map[string]int{}}
	// faults with one and the same observation are reported together, as ranges
	type group struct {
		obsTerm string
		ranges  []string
		// the open run
		kind      int // 0 none, 1 TR, 2 CV, 3 CO
		a, lo, hi int
	}
	groups := map[string]*group{}
	var order []string
	flush := func(g *group) {
		switch g.kind {
		case 1:
			g.ranges = append(g.ranges, fmt.Sprintf("TR %d %d", g.lo, g.hi+1))
		case 2:
			g.ranges = append(g.ranges, fmt.Sprintf("CV %d %d %d", g.a, g.lo, g.hi))
		case 3:
			g.ranges = append(g.ranges, fmt.Sprintf("CO %d %d %d", g.lo, g.hi, g.a))
		}
		g.kind = 0
	}
	add := func(sig string, f c16Fault) {
		g := groups[sig]
		if g == nil {
			g = &group{obsTerm: sig}
			groups[sig] = g
			order = append(order, sig)
		}
		switch {
		case f.Trunc:
			if g.kind == 1 && f.Pos == g.hi+1 {
				g.hi = f.Pos
				return
			}
			flush(g)
			g.kind, g.lo, g.hi = 1, f.Pos, f.Pos
		case in.Mode == "alloffsets":
			mask := f.Val ^ int(file[f.Pos])
			if g.kind == 3 && g.a == mask && f.Pos == g.hi+1 {
				g.hi = f.Pos
				return
			}
			flush(g)
			g.kind, g.a, g.lo, g.hi = 3, mask, f.Pos, f.Pos
		default:
			old := int(file[f.Pos])
			if g.kind == 2 && g.a == f.Pos && (f.Val == g.hi+1 || (f.Val == g.hi+2 && g.hi+1 == old)) {
				g.hi = f.Val
				return
			}
			flush(g)
			g.kind, g.a, g.lo, g.hi = 2, f.Pos, f.Val, f.Val
		}
	}
	for _, f := range faults {
		var data []byte
		if f.Trunc {
			if f.Pos < 0 || f.Pos > len(file) {
				continue
			}
			data = file[:f.Pos]
		} else {
			if f.Pos < 0 || f.Pos >= len(file) || byte(f.Val) == file[f.Pos] {
				continue
			}
			f.Val = int(byte(f.Val))
			data = append([]byte(nil), file...)
			data[f.Pos] = byte(f.Val)
		}
		maxReads, huge := c16SafeReads(data, uint64(allocCap))
		if huge {
			obs.Skipped++ // the read loop is stopped before the huge allocation
		}
		raw := c16ReadMax(data, "raw", maxReads)
		blk := c16ReadMax(data, "block", maxReads)
		fo := c16FaultObs{Fault: f, RawEnd: raw.End, BlkEnd: blk.End, NRaw: len(raw.Raw)}
		rawItems := make([]string, len(raw.Raw))
		rawRef := make([]int, len(raw.Raw))
		for i, g := range raw.Raw {
			rawRef[i] = -1
			if j, ok := c16RawRef(lay.msgs, i, g); ok {
				rawItems[i] = fmt.Sprintf("IRef %d", j)
				rawRef[i] = j
			} else if i < len(lay.msgs) && c16OneByteDiff(lay.msgs[i], g) {
				rawItems[i] = fmt.Sprintf("IMod %d", i)
			} else {
				rawItems[i] = fmt.Sprintf("IAlt %d %d", len(g), c16WSum(g))
			}
		}
		blkItems := make([]string, len(blk.Blocks))
		for i, p := range blk.Blocks {
			ref := -1
			if i < len(rawRef) && rawRef[i] >= 0 {
				if j := rawRef[i]; j < len(clean) && proto.Equal(p, clean[j]) {
					ref = j
				}
			} else if i < len(clean) && proto.Equal(p, clean[i]) {
				ref = i
			} else {
				for j, c := range clean {
					if proto.Equal(p, c) {
						ref = j
						break
					}
				}
			}
			if ref >= 0 {
				blkItems[i] = fmt.Sprintf("IRef %d", ref)
				fo.Blocks = append(fo.Blocks, fmt.Sprintf("=%d", ref))
			} else {
				blkItems[i] = "IAlt 0 0"
				fo.Blocks = append(fo.Blocks, c16Project(p))
			}
			if ref != i {
				fo.Altered = true
			}
		}
		if fo.Altered {
			obs.Altered++
		}
		crashed := raw.End == "panic" || raw.End == "hang" || blk.End == "panic" || blk.End == "hang"
		if crashed {
			obs.Crashed++
		}
		obs.Ends[blk.End]++
		if (fo.Altered || crashed) && len(obs.Examples) < 3 {
			obs.Examples = append(obs.Examples, fo)
		}
		ct := "CNone"
		if blk.CType != nil {
			if *blk.CType == string(lay.ct) {
				ct = "CSame"
			} else if sl, ok := c16AnnouncedCType(data); ok && *blk.CType == sl {
				ct = "CSlice"
			} else {
				ct = "(COther " + coqBytes(*blk.CType) + ")"
			}
		}
		limit := "None"
		if huge {
			limit = fmt.Sprintf("(Some %d)", maxReads)
		}
		add(fmt.Sprintf("%s %s %s %s %s %s", limit, ct, coqList(rawItems), coqEnd(raw.End), coqList(blkItems), coqEnd(blk.End)), f)
		obs.Executed++
	}
	var terms []string
	for _, sig := range order {
		g := groups[sig]
		flush(g)
		terms = append(terms, fmt.Sprintf("(mkFobs %s %s)", coqList(g.ranges), g.obsTerm))
	}
	obs.Groups = len(terms)
	region := map[string]string{"trunc": "trunc/all", "magic": "corrupt/hdr/magic", "ctype": "corrupt/hdr/ctype",
		"version": "corrupt/start/version", "ctlen": "corrupt/start/ctlen", "msglen": "corrupt/frame/msglen", "body": "corrupt/frame/body"}[in.Region]
	if region == "" {
		region = "corrupt/other"
	}
	cs := &Case{Obs: obs, Nontrivial: obs.Executed > 0}
	switch {
	case obs.Crashed > 0:
		cs.Class = region + "/crash"
	case obs.Altered > 0:
		cs.Class = region + "/altered"
	default:
		cs.Class = region + "/detected"
	}
	cs.Coq = fmt.Sprintf("CFault %s %s %d %d %s %s %s", coqBytes(string(lay.ct)), c16CoqStrs(lay.msgs), len(file), c16WSum(file),
		c16CoqBlks(in.Blocks), coqList(cleanC), coqList(terms))
	cs.Key = fmt.Sprintf("faults:%s:%s:%d:%s", in.Region, in.Mode, in.FaultSeed, string(file))
	return cs, nil
}

// the bytes of the (damaged) file that its own header announces as the content type
func c16AnnouncedCType(data []byte) (string, bool) {
	if len(data) < 8 {
		return "", false
	}
	if data[4] == 0 {
		return string(data[5:8]), true
	}
	l := int(binary.BigEndian.Uint16(data[5:7]))
	if len(data) < 7+l {
		return "", false
	}
	return string(data[7 : 7+l]), true
}

func c16OneByteDiff(a, b []byte) bool {
	if len(a) != len(b) {
		return false
	}
	n := 0
	for i := range a {
		if a[i] != b[i] {
			n++
		}
	}
	return n == 1
}

type c16ParsedObs struct {
	Num   uint64 `json:"num"`
	ID    []byte `json:"id"`
	Prev  []byte `json:"prev"`
	Lib   uint64 `json:"lib"`
	Canon []byte `json:"canon"`
}

func c16ParseName(s string) (*c16ParsedObs, bool) {
	var out *c16ParsedObs
	end, _ := c16Guard(func() {
		n, id, prev, lib, canon, err := bstream.ParseFilename(s)
		if err == nil {
			out = &c16ParsedObs{n, []byte(id), []byte(prev), lib, []byte(canon)}
		}
	})
	return out, end != ""
}

func coqParsed(p *c16ParsedObs) string {
	if p == nil {
		return "None"
	}
	return fmt.Sprintf("(Some (mkParsed %d %s %s %d %s))", p.Num, coqBytes(string(p.ID)), coqBytes(string(p.Prev)), p.Lib, coqBytes(string(p.Canon)))
}

type c16NameObs struct {
	Name    []byte        `json:"name"`
	TID     []byte        `json:"tid"`
	TParent []byte        `json:"tparent"`
	Parsed  *c16ParsedObs `json:"parsed"`
	Re      *c16ParsedObs `json:"re,omitempty"`
	Panic   bool          `json:"panic,omitempty"`
}

func c16ExecName(in *c16Input) (*Case, error) {
	if len(in.Blocks) != 1 {
		return nil, fmt.Errorf("name input needs one block")
	}
	b := in.Blocks[0]
	obs := &c16NameObs{}
	end, _ := c16Guard(func() {
		p := b.pb()
		obs.Name = []byte(bstream.BlockFileNameWithSuffix(p, string(in.Suffix)))
		obs.TID = []byte(bstream.TruncateBlockID(p.Id))
		obs.TParent = []byte(bstream.TruncateBlockID(p.ParentId))
	})
	obs.Panic = end != ""
	if !obs.Panic {
		var pp bool
		obs.Parsed, pp = c16ParseName(string(obs.Name))
		obs.Panic = pp
	}
	cs := &Case{Obs: obs, Nontrivial: true, Key: "name:" + string(obs.Name)}
	cs.Coq = fmt.Sprintf("CName %d %s %s %d %s %s %s %s %s %s", b.Num, coqBytes(string(b.ID)), coqBytes(string(b.Parent)), b.Lib,
		coqBytes(string(in.Suffix)), coqBytes(string(obs.Name)), coqBytes(string(obs.TID)), coqBytes(string(obs.TParent)), coqParsed(obs.Parsed), coqBool(obs.Panic))
	dashFree := !bytes.Contains(obs.TID, []byte("-")) && !bytes.Contains(obs.TParent, []byte("-")) && !bytes.Contains(in.Suffix, []byte("-"))
	switch {
	case obs.Panic:
		cs.Class = "name/crash"
	case !dashFree:
		cs.Class = "name/dash-in-segment"
	case b.Num >= 1<<32 || b.Lib >= 1<<32:
		cs.Class = "name/ok/ge-2^32"
	default:
		cs.Class = "name/ok"
	}
	return cs, nil
}

func c16ExecParse(in *c16Input) (*Case, error) {
	obs := &c16NameObs{Name: in.Text}
	var p1, p2 bool
	obs.Parsed, p1 = c16ParseName(string(in.Text))
	if obs.Parsed != nil {
		obs.Re, p2 = c16ParseName(string(obs.Parsed.Canon) + "-x")
	}
	obs.Panic = p1 || p2
	cs := &Case{Obs: obs, Nontrivial: len(in.Text) > 0, Key: "parse:" + string(in.Text)}
	cs.Coq = fmt.Sprintf("CParse %s %s %s %s", coqBytes(string(in.Text)), coqParsed(obs.Parsed), coqParsed(obs.Re), coqBool(obs.Panic))
	switch {
	case obs.Panic:
		cs.Class = "parse/crash"
	case obs.Parsed != nil:
		cs.Class = "parse/accepted"
	default:
		cs.Class = "parse/rejected"
	}
	return cs, nil
}

type c16QueryObs struct {
	Num uint64 `json:"num"`
	ID  []byte `json:"id"`
	Res string `json:"res"`
}

type c16FetchObs struct {
	Files   []string      `json:"files"`
	Damaged string        `json:"damaged,omitempty"`
	Queries []c16QueryObs `json:"queries"`
}

func c16QueryTerm(q c16Query, res string) string {
	return fmt.Sprintf("(mkQuery %d %s %s)", q.Num, coqBytes(string(q.ID)), res)
}

func c16ExecFetch(in *c16Input) (*Case, error) {
	type entry struct {
		name string
		data []byte
		msg  []byte
		blk  c16Blk
		dec  *pbbstream.Block
	}
	byName := map[string]*entry{}
	for i, b := range in.Blocks {
		p := b.pb()
		file, wok, wpanic := c16Write([]*pbbstream.Block{p})
		if !wok || wpanic {
			continue
		}
		msg, err := proto.Marshal(p)
		if err != nil {
			continue
		}
		name := bstream.BlockFileNameWithSuffix(p, fmt.Sprintf("%s%d", in.Suffix, i%2))
		if strings.Contains(name, "err") {
			continue // dstore.MockStore treats such names as injected failures
		}
		ro := c16Read(file, "block")
		if len(ro.Blocks) != 1 {
			continue
		}
		byName[name] = &entry{name, file, msg, b, ro.Blocks[0]}
	}
	names := make([]string, 0, len(byName))
	for n := range byName {
		names = append(names, n)
	}
	sort.Strings(names) // the order in which MockStore.Walk presents the files
	entries := make([]*entry, len(names))
	obs := &c16FetchObs{}
	for i, n := range names {
		entries[i] = byName[n]
	}
	if in.Damage > 0 && in.Damage <= len(entries) {
		e := entries[in.Damage-1]
		cut := in.DamageCut
		if cut > len(e.data) {
			cut = len(e.data)
		}
		e.data = e.data[:cut]
		obs.Damaged = e.name
	}
	store := dstore.NewMockStore(nil)
	var files, msgs, ids []string
	for _, e := range entries {
		store.SetFile(e.name, e.data)
		obs.Files = append(obs.Files, e.name)
		files = append(files, fmt.Sprintf("(mkSfile %s %s)", coqBytes(e.name), coqBytes(string(e.data))))
		msgs = append(msgs, coqBytes(string(e.msg)))
		ids = append(ids, fmt.Sprintf("(%d, %s)", e.blk.Num, coqBytes(string(e.blk.ID))))
	}
	var qterms []string
	crashed, wrong := false, false
	for _, q := range in.Queries {
		var blk *pbbstream.Block
		var err error
		end, _ := c16Guard(func() {
			blk, err = bstream.FetchBlockFromOneBlockStore(context.Background(), q.Num, string(q.ID), store)
		})
		res := ""
		switch {
		case end == "hang":
			res, crashed = "QHang", true
		case end != "":
			res, crashed = "QPanic", true
		case err == dstore.ErrNotFound:
			res = "QNotFound"
		case err != nil:
			res = "QErr"
		case blk == nil:
			res = "QNil"
		default:
			res = "(QBlock (IAlt 0 0))"
			for i, e := range entries {
				if proto.Equal(blk, e.dec) {
					res = fmt.Sprintf("(QBlock (IRef %d))", i)
					if e.blk.Num != q.Num {
						wrong = true
					}
					break
				}
			}
		}
		obs.Queries = append(obs.Queries, c16QueryObs{q.Num, q.ID, res})
		qterms = append(qterms, c16QueryTerm(q, res))
	}
	cs := &Case{Obs: obs, Nontrivial: len(entries) > 0, Key: "fetch:" + strings.Join(names, "|") + fmt.Sprint(in.Damage, in.DamageCut)}
	cs.Coq = fmt.Sprintf("CFetch %s %s %s %s", coqList(files), coqList(msgs), coqList(ids), coqList(qterms))
	switch {
	case crashed:
		cs.Class = "fetch/oneblock/crash"
	case wrong:
		cs.Class = "fetch/oneblock/wrong-height"
	case obs.Damaged != "":
		cs.Class = "fetch/oneblock/damaged-file"
	default:
		cs.Class = "fetch/oneblock/intact"
	}
	return cs, nil
}

func c16ExecMerged(in *c16Input) (*Case, error) {
	pbs := make([]*pbbstream.Block, len(in.Blocks))
	var nums []string
	for i, b := range in.Blocks {
		pbs[i] = b.pb()
		nums = append(nums, fmt.Sprint(b.Num))
	}
	file, wok, wpanic := c16Write(pbs)
	if !wok || wpanic || len(pbs) == 0 {
		cs, err := c16ExecRound(in)
		if cs != nil {
			cs.Class = "fetch/merged/unwritable"
		}
		return cs, err
	}
	clean := c16Read(file, "block").Blocks
	store := dstore.NewMockStore(nil)
	store.SetFile("0000000000", file)
	obs := &c16FetchObs{Files: []string{"0000000000"}}
	var qterms []string
	crashed, block0Hang, otherCrash := false, false, false
	for _, q := range in.Queries {
		var blk *pbbstream.Block
		var err error
		end, _ := c16Guard(func() {
			blk, err = bstream.FetchBlockFromMergedBlocksStore(context.Background(), q.Num, store)
		})
		res := ""
		switch {
		case end == "hang":
			res, crashed = "QHang", true
			var maxNum uint64
			for _, b := range in.Blocks {
				if b.Num > maxNum {
					maxNum = b.Num
				}
			}
			if q.Num == 0 && maxNum == 0 {
				block0Hang = true // stop block 0 means "no stop block": the file source waits for the next bundle
			} else {
				otherCrash = true
			}
		case end != "":
			res, crashed, otherCrash = "QPanic", true, true
		case err == dstore.ErrNotFound:
			res = "QNotFound"
		case err != nil:
			res = "QErr"
		case blk == nil:
			res = "QNil"
		default:
			res = "(QBlock (IAlt 0 0))"
			for i, c := range clean {
				if proto.Equal(blk, c) && in.Blocks[i].Num == q.Num {
					res = fmt.Sprintf("(QBlock (IRef %d))", i)
					break
				}
			}
		}
		obs.Queries = append(obs.Queries, c16QueryObs{Num: q.Num, Res: res})
		qterms = append(qterms, c16QueryTerm(q, res))
	}
	cs := &Case{Obs: obs, Nontrivial: true, Key: "merged:" + string(file)}
	cs.Coq = fmt.Sprintf("CMerged %s %s", coqList(nums), coqList(qterms))
	cs.Class = "fetch/merged"
	if crashed {
		cs.Class = "fetch/merged/crash"
		if block0Hang && !otherCrash {
			cs.Class = "fetch/merged/block0-last-hang"
		}
	}
	return cs, nil
}

func c16Exec(raw json.RawMessage) (*Case, error) {
	var in c16Input
	if err := json.Unmarshal(raw, &in); err != nil {
		return nil, err
	}
	switch in.Kind {
	case "round":
		return c16ExecRound(&in)
	case "retry":
		return c16ExecRetry(&in)
	case "faults":
		return c16ExecFaults(&in)
	case "name":
		return c16ExecName(&in)
	case "parse":
		return c16ExecParse(&in)
	case "fetch":
		return c16ExecFetch(&in)
	case "merged":
		return c16ExecMerged(&in)
	}
	return nil, fmt.Errorf("unknown C16 input kind %q", in.Kind)
}

// ---------------------------------------------------------------- corpus

func c16Corpus() []any {
	mk := func(num uint64, id, parent string, lib uint64, url string, val []byte) c16Blk {
		return c16Blk{Num: num, ID: []byte(id), Parent: []byte(parent), Lib: lib, PNum: num - 1, HasPayload: true, URL: []byte(url), Val: val}
	}
	two := []c16Blk{mk(1, "01aa", "00aa", 0, "type.googleapis.com/T", []byte{1, 2, 3, 4, 5, 6, 7, 8, 9}),
		mk(2, "02aa", "01aa", 0, "type.googleapis.com/T", []byte{1, 2, 3, 4, 5, 6, 7, 8, 9})}
	out := []any{
		// design-time finding 1 (fixed): every cut of a two-block file, including inside the last message
		c16Input{Kind: "faults", Blocks: two, Region: "trunc", Mode: "all"},
		// design-time finding 2 (fixed): names of blocks >= 2^32
		c16Input{Kind: "name", Blocks: []c16Blk{mk(1<<32, "aa", "bb", 1<<32-1, "", nil)}, Suffix: []byte("generated")},
		c16Input{Kind: "name", Blocks: []c16Blk{mk(1<<64-1, "0123456789abcdef0123", "muchlongerthan16charsalso", 1<<64-1, "", nil)}, Suffix: []byte("generated")},
		c16Input{Kind: "parse", Text: []byte("4294967296-a-b-4294967296-x")},
		c16Input{Kind: "parse", Text: []byte("18446744073709551616-a-b-1-x")},
		// writer: first block without payload (fixed: error instead of a nil dereference)
		c16Input{Kind: "round", Blocks: []c16Blk{{Num: 3, ID: []byte("x"), Kind: 2}}},
		// a legacy block at the first streamable height keeps the parent number it was written with
		c16Input{Kind: "round", Blocks: []c16Blk{two[0], {Num: 0, ID: []byte("00bb"), Kind: 2, PBuf: []byte{9}}, {Num: 0, ID: []byte("00cc"), Kind: 1, PNum: 7}}},
		// the writer used again after a first Write that failed in the header step
		c16Input{Kind: "retry", Blocks: []c16Blk{{Num: 3, ID: []byte("x"), Kind: 2}, two[0], two[1]}},
		// fetch (fixed): the id of the block of height num+1 asked at height num
		c16Input{Kind: "fetch", Blocks: []c16Blk{mk(5, "00000000000000000000aa05", "p", 3, "t/T", []byte{1}), mk(6, "00000000000000000000bb06", "q", 3, "t/T", []byte{2})},
			Suffix:  []byte("s"),
			Queries: []c16Query{{5, []byte("00000000000000000000aa05")}, {5, []byte("00000000000000000000bb06")}, {4, []byte("00000000000000000000aa05")}, {6, []byte("00000000000000000000bb06")}}},
		// fetch (fixed 6b75a41): a one-block file cut exactly at the end of its 10-byte header ("dbin", version, length 3, "t/T")
		// holds no block: an error, not (nil, nil)
		c16Input{Kind: "fetch", Blocks: []c16Blk{mk(5, "00000000000000000000aa05", "p", 3, "t/T", []byte{1}), mk(6, "00000000000000000000bb06", "q", 3, "t/T", []byte{2})},
			Suffix: []byte("s"), Damage: 1, DamageCut: 10,
			Queries: []c16Query{{5, []byte("00000000000000000000aa05")}, {6, []byte("00000000000000000000bb06")}}},
		c16Input{Kind: "fetch", Blocks: []c16Blk{mk(5, "00000000000000000000aa05", "p", 3, "t/T", []byte{1}), mk(6, "00000000000000000000bb06", "q", 3, "t/T", []byte{2})},
			Suffix: []byte("s"), Damage: 2, DamageCut: 10,
			Queries: []c16Query{{5, []byte("00000000000000000000aa05")}, {6, []byte("00000000000000000000bb06")}}},
	}
	// known finding C16-frame-corruption-alters: the last payload byte changed
	if file, ok, _ := c16Write([]*pbbstream.Block{two[0].pb(), two[1].pb()}); ok {
		out = append(out, c16Input{Kind: "faults", Blocks: two, Region: "body", Mode: "explicit",
			Faults: []c16Fault{{Pos: len(file) - 1, Val: int(file[len(file)-1]) ^ 1}}})
		// ... and a length prefix shortened to a field boundary: the number field only
		lay := c16ParseFile(file, two[0].URL)
		if lay != nil && len(lay.starts) == 2 {
			out = append(out, c16Input{Kind: "faults", Blocks: two, Region: "msglen", Mode: "explicit",
				Faults: []c16Fault{{Pos: lay.starts[1] + 3, Val: 2}}})
		}
	}
	// merged fetch of a height that no block of the bundle reaches, and of heights whose bundle does not exist (fixed: both
	// used to wait for the next bundle for ever)
	out = append(out, c16Input{Kind: "merged", Blocks: []c16Blk{mk(1, "01aa", "00aa", 0, "t/T", []byte{1}), mk(2, "02aa", "01aa", 0, "t/T", []byte{2}), mk(4, "04aa", "02aa", 0, "t/T", []byte{4})},
		Queries: []c16Query{{Num: 3}, {Num: 4}, {Num: 60}, {Num: 99}, {Num: 100}, {Num: 150}, {Num: 1 << 40}}})
	// known finding C16-merged-fetch-block0-hangs: block 0 is the last block of the merged store
	out = append(out, c16Input{Kind: "merged", Blocks: []c16Blk{mk(0, "00aa", "", 0, "t/T", []byte{1})}, Queries: []c16Query{{Num: 0}}})
	// known finding C16-stream-start-corruption-alters: a payload that itself contains a framed
	// message, and the header's content-type length changed so that the stream starts there
	hidden := mk(8, "hidden", "zz", 1, "t/T", []byte{7})
	if hm, err := proto.Marshal(hidden.pb()); err == nil {
		val := make([]byte, 4, 4+len(hm))
		binary.BigEndian.PutUint32(val, uint32(len(hm)))
		val = append(val, hm...)
		outer := mk(7, "aa", "zz", 1, "t/T", val)
		if om, err := proto.Marshal(outer.pb()); err == nil {
			d := 4 + len(om) - len(val) // distance from the real start of the stream to the nested frame
			newLen := len(outer.URL) + d
			if newLen < 256 {
				out = append(out, c16Input{Kind: "faults", Blocks: []c16Blk{outer}, Region: "ctlen", Mode: "explicit",
					Faults: []c16Fault{{Pos: 6, Val: newLen}}})
			}
		}
	}
	return out
}

func init() {
	props["C16"] = &Prop{Gen: c16Gen, Exec: c16Exec, Corpus: c16Corpus}
}
