// Command harness runs the real bstream code (built from /repo's working tree with -tags verif)
// on generated or replayed inputs and writes, per case, the input, the projected observation
// and the Coq term the driver feeds to the model and to the property checker.
package main

import (
	"encoding/json"
	"flag"
	"fmt"
	"os"
	"time"

	"github.com/streamingfast/logging"
	"go.uber.org/zap"
)

func init() {
	// silence the library's loggers: observations never contain log text
	logging.Override(zap.NewNop())
}

func main() {
	if len(os.Args) < 2 {
		fmt.Fprintln(os.Stderr, "usage: harness <property> [-seed N] [-n N] [-tier quick|thorough] [-out file] [-replay file]")
		os.Exit(2)
	}
	id := os.Args[1]
	fs := flag.NewFlagSet("harness", flag.ExitOnError)
	seed := fs.Uint64("seed", 1, "PRNG seed")
	n := fs.Int("n", 100, "number of generated cases")
	tier := fs.String("tier", "quick", "tier")
	out := fs.String("out", "cases.jsonl", "output file")
	replay := fs.String("replay", "", "replay file (JSON with an 'input' field, or a list of inputs)")
	fs.Parse(os.Args[2:])

	p, ok := props[id]
	if !ok {
		fmt.Fprintf(os.Stderr, "unknown property %s\n", id)
		os.Exit(2)
	}
	w, err := newCaseWriter(*out)
	if err != nil {
		fmt.Fprintln(os.Stderr, err)
		os.Exit(2)
	}
	start := time.Now()
	run := func(input json.RawMessage, tag string) {
		cs, err := p.Exec(input)
		if err != nil {
			fmt.Fprintf(os.Stderr, "harness error on input %s: %v\n", string(input), err)
			os.Exit(3)
		}
		if cs.Input == nil {
			cs.Input = input
		}
		if tag != "" {
			cs.Tags = append(cs.Tags, tag)
		}
		if err := w.write(cs); err != nil {
			fmt.Fprintln(os.Stderr, err)
			os.Exit(2)
		}
	}
	if *replay != "" {
		b, err := os.ReadFile(*replay)
		if err != nil {
			fmt.Fprintln(os.Stderr, err)
			os.Exit(2)
		}
		var one struct {
			Input  json.RawMessage   `json:"input"`
			Inputs []json.RawMessage `json:"inputs"`
		}
		if err := json.Unmarshal(b, &one); err != nil {
			fmt.Fprintln(os.Stderr, err)
			os.Exit(2)
		}
		if one.Input != nil {
			run(one.Input, "replay")
		}
		for _, in := range one.Inputs {
			run(in, "replay")
		}
	} else {
		if p.Corpus != nil {
			for _, in := range p.Corpus() {
				run(mustJSON(in), "corpus")
			}
		}
		r := NewRng(*seed)
		// A change that makes sources stall costs seconds per affected case (watchdogs, retries under a longer watchdog).
		// Once two minutes have gone into cases slower than a second, generation stops: the cases run so far are judged
		// as usual (fewer cases, none of them shortened). On the unchanged tree no quick check comes near this budget.
		var slow time.Duration
		for i := 0; i < *n; i++ {
			in := p.Gen(r.Fork(), i, *tier)
			t0 := time.Now()
			run(mustJSON(in), "")
			if d := time.Since(t0); d > time.Second {
				slow += d
			}
			if slow > 2*time.Minute && *tier == "quick" {
				fmt.Fprintf(os.Stderr, "harness %s: generation stopped after %d of %d cases: %s spent in cases slower than a second\n", id, i+1, *n, slow.Round(time.Second))
				break
			}
		}
	}
	if err := w.close(); err != nil {
		fmt.Fprintln(os.Stderr, err)
		os.Exit(2)
	}
	fmt.Fprintf(os.Stderr, "harness %s: %d cases in %.2fs\n", id, w.n, time.Since(start).Seconds())
}
