package main

// C06: a live history through a real Forkable mints cursors; the chain is then finalised into real
// merged-blocks bundles (dbin) plus one-block files of the forked blocks, and a real
// NewFileSourceFromCursor / NewFileSourceThroughCursor is run from a delivered cursor.

import (
	"bytes"
	"context"
	"encoding/json"
	"errors"
	"fmt"
	"sort"
	"strings"
	"time"

	"github.com/streamingfast/bstream"
	"github.com/streamingfast/bstream/forkable"
	pbbstream "github.com/streamingfast/bstream/pb/sf/bstream/v1"
	"github.com/streamingfast/dstore"
	"go.uber.org/zap"
	"google.golang.org/protobuf/proto"
	"google.golang.org/protobuf/types/known/anypb"
)

type c06Input struct {
	LIB     fkRef     `json:"lib"`
	First   uint64    `json:"first"`
	History []fkBlock `json:"history"` // arrival order of the live phase
	Root    fkBlock   `json:"root"`    // the LIB block itself (first block of the merged chain)
	Extra   int       `json:"extra"`   // blocks appended to the winning tip before finalising
	Bundle  uint64    `json:"bundle"`
	KSel    int       `json:"ksel"`
	Final   bool      `json:"final"`
	Undo    bool      `json:"undo"`
	Forked  bool      `json:"forked"` // prefer a cursor whose block is not on the final canonical chain
	Pass    bool      `json:"pass"` // through-cursor (target) mode
	SSel    int       `json:"ssel"`
	Missing []int     `json:"missing"` // selectors of forked one-block files that are absent
	Shape   string    `json:"shape"`
}
type c06Obs struct {
	Cursor  brCursor  `json:"cursor"`
	K       int       `json:"k"`
	Start   uint64    `json:"start"`
	Stop    uint64    `json:"stop"`
	Canon   []fkBlock `json:"canon"`
	Forked  []fkBlock `json:"forked"`
	Live    []fkEvent `json:"live"`
	Events  []fkEvent `json:"events"`
	Err     int       `json:"err"`
	ErrText string    `json:"err_text,omitempty"`
	// W3: the first delivery whose block / handler object is not the stored one (Err is then 6; ErrRun keeps the class of
	// the run's own final error)
	ObjErr string `json:"obj_err,omitempty"`
	ErrRun int    `json:"err_run,omitempty"`
}

// W3: what the preprocess function of the file source returns for a block (checked behind WrappedObject())
func c06Token(blk *pbbstream.Block) string { return "pp:" + blk.Id + "@" + fmt.Sprint(blk.Number) }

// W3: a reference whose id is not in the generated form (e.g. truncated to its last 16 characters) maps to the same number
// under fkIDNum: it is reported instead of being identified with the stored block's id
func c06RefExact(r bstream.BlockRef) bool { return r == nil || fkIDStr(fkIDNum(r.ID())) == r.ID() }

func c06PB(b fkBlock) *pbbstream.Block {
	p := fkPB(b)
	p.Payload = &anypb.Any{TypeUrl: "type.googleapis.com/sf.bstream.v1.verif", Value: []byte{byte(b.ID), byte(b.ID >> 8)}}
	return p
}

func c06Bytes(blocks ...fkBlock) []byte {
	buf := &bytes.Buffer{}
	w, err := bstream.NewDBinBlockWriter(buf)
	if err != nil {
		panic(err)
	}
	for _, b := range blocks {
		if err := w.Write(c06PB(b)); err != nil {
			panic(err)
		}
	}
	return buf.Bytes()
}

type c06Step interface {
	Step() bstream.StepType
	Cursor() *bstream.Cursor
	ReorgJunctionBlock() bstream.BlockRef
	WrappedObject() interface{}
}

func c06Run(in *c06Input) (*c06Obs, bool) {
	saved := bstream.GetProtocolFirstStreamableBlock
	bstream.GetProtocolFirstStreamableBlock = in.First
	defer func() { bstream.GetProtocolFirstStreamableBlock = saved }()
	obs := &c06Obs{K: -1}

	// 1. live phase
	rec := &fkRecorder{failAt: -1}
	p := forkable.New(rec, forkable.WithExclusiveLIB(bstream.NewBlockRef(fkIDStr(in.LIB.ID), in.LIB.Num)), forkable.WithKeptFinalBlocks(1000))
	var all []fkEvent
	byID := map[uint64]fkBlock{in.Root.ID: in.Root}
	feed := func(b fkBlock) {
		var evs []fkEvent
		rec.cur = &evs
		_ = p.ProcessBlock(fkPB(b), nil)
		all = append(all, evs...)
	}
	for _, b := range in.History {
		byID[b.ID] = b
		feed(b)
	}
	// 2. extend the winning tip, then the canonical chain = consumer stack
	stack := []fkBlock{}
	apply := func(evs []fkEvent) {
		for _, e := range evs {
			switch e.Step {
			case 1:
				stack = append(stack, e.Blk)
			case 2:
				if len(stack) > 0 {
					stack = stack[:len(stack)-1]
				}
			}
		}
	}
	apply(all)
	tip := in.Root
	if len(stack) > 0 {
		tip = stack[len(stack)-1]
	}
	nextID := uint64(900000)
	for i := 0; i < in.Extra; i++ {
		nb := fkBlock{ID: nextID + uint64(i), Num: tip.Num + 1, Parent: tip.ID, Lib: tip.Lib}
		if i == in.Extra-1 {
			nb.Lib = tip.Num // finalise
		}
		byID[nb.ID] = nb
		before := len(all)
		feed(nb)
		apply(all[before:])
		tip = nb
	}
	canon := append([]fkBlock{in.Root}, stack...)
	obs.Canon = canon
	canonIDs := map[uint64]bool{}
	for _, b := range canon {
		canonIDs[b.ID] = true
	}
	// 3. choose the cursor
	var cand []int
	for i, e := range all {
		if in.Final {
			if e.Step == 16 {
				cand = append(cand, i)
			}
		} else if e.Step == 1 || e.Step == 2 {
			cand = append(cand, i)
		}
	}
	if in.Undo && !in.Final {
		var u []int
		for _, i := range cand {
			if all[i].Step == 2 {
				u = append(u, i)
			}
		}
		if len(u) > 0 {
			cand = u
		}
	}
	if in.Forked && !in.Final {
		var u []int
		for _, i := range cand {
			if !canonIDs[all[i].Blk.ID] {
				u = append(u, i)
			}
		}
		if len(u) > 0 {
			cand = u
		}
	}
	if len(cand) == 0 {
		return obs, false
	}
	k := cand[in.KSel%len(cand)]
	e := all[k]
	obs.K = k
	obs.Live = all[:k+1]
	obs.Cursor = brCursor{e.Step, e.CBlk, e.Head, e.Lib}
	cur := &bstream.Cursor{Step: bstream.StepType(e.Step), Block: bstream.NewBlockRef(fkIDStr(e.CBlk.ID), e.CBlk.Num),
		HeadBlock: bstream.NewBlockRef(fkIDStr(e.Head.ID), e.Head.Num), LIB: bstream.NewBlockRef(fkIDStr(e.Lib.ID), e.Lib.Num)}

	// 4. stores
	merged := dstore.NewMockStore(nil)
	bundles := map[uint64][]fkBlock{}
	for _, b := range canon {
		base := b.Num / in.Bundle * in.Bundle
		bundles[base] = append(bundles[base], b)
	}
	for base, bl := range bundles {
		merged.SetFile(fmt.Sprintf("%010d", base), c06Bytes(bl...))
	}
	forkedStore := dstore.NewMockStore(nil)
	var forkedAll []fkBlock
	for _, b := range byID {
		if !canonIDs[b.ID] {
			forkedAll = append(forkedAll, b)
		}
	}
	sort.Slice(forkedAll, func(i, j int) bool { return forkedAll[i].ID < forkedAll[j].ID })
	missing := map[int]bool{}
	for _, m := range in.Missing {
		if len(forkedAll) > 0 {
			missing[m%len(forkedAll)] = true
		}
	}
	for i, b := range forkedAll {
		if missing[i] {
			continue
		}
		obs.Forked = append(obs.Forked, b)
		forkedStore.SetFile(bstream.BlockFileName(c06PB(b)), c06Bytes(b))
	}
	stop := canon[len(canon)-1].Num
	obs.Stop = stop

	// 5. the file source
	var got []fkEvent
	withPre := in.KSel%2 == 1 // W3: half of the cases run with a preprocess function (the selector is drawn anyway)
	h := bstream.HandlerFunc(func(blk *pbbstream.Block, obj interface{}) error {
		so := obj.(c06Step)
		c := so.Cursor()
		ev := fkEvent{Step: int(so.Step()), Blk: fkFromPB(blk), CBlk: fkCursorBlk(c, so.Step()), Head: fkRefOf(c.HeadBlock), Lib: fkRefOf(c.LIB), CStep: int(c.Step)}
		if j := so.ReorgJunctionBlock(); j != nil && so.Step() == bstream.StepUndo {
			r := fkRefOf(j)
			ev.Junc = &r
		}
		// W3: the delivered block is the STORED block (merged file or one-block file), whole: id in full, payload, time;
		// the object is the one the preprocess function made for that block; references are spelled in full
		if obs.ObjErr == "" {
			n := len(got)
			stored, known := byID[fkIDNum(blk.Id)]
			switch {
			case !known || !proto.Equal(blk, c06PB(stored)):
				obs.ObjErr = fmt.Sprintf("event %d (step %d): delivered block %s #%d is not the stored block (id in full, parent, lib, time, payload)", n, so.Step(), blk.Id, blk.Number)
			case c.Step != so.Step():
				obs.ObjErr = fmt.Sprintf("event %d: object step %d, cursor step %d", n, so.Step(), c.Step)
			case !c06RefExact(c.Block) || !c06RefExact(c.HeadBlock) || !c06RefExact(c.LIB) || !c06RefExact(so.ReorgJunctionBlock()):
				obs.ObjErr = fmt.Sprintf("event %d: a cursor / junction reference does not carry the full block id (%s)", n, c)
			case withPre && so.Step() != bstream.StepUndo && so.WrappedObject() != interface{}(c06Token(blk)):
				obs.ObjErr = fmt.Sprintf("event %d (step %d, block #%d): wrapped object %v is not the preprocessed object of the block", n, so.Step(), blk.Number, so.WrappedObject())
			case so.Step() == bstream.StepUndo && so.WrappedObject() != nil && so.WrappedObject() != interface{}(c06Token(blk)):
				// an Undo built from a one-block file carries no preprocessed object (a downstream bstream.Preprocessor fills it)
				obs.ObjErr = fmt.Sprintf("event %d (undo, block #%d): wrapped object %v belongs to another block", n, blk.Number, so.WrappedObject())
			}
		}
		got = append(got, ev)
		return nil
	})
	opts := []bstream.FileSourceOption{bstream.FileSourceWithBundleSize(in.Bundle), bstream.FileSourceWithStopBlock(stop)}
	if withPre {
		opts = append(opts, bstream.FileSourceWithConcurrentPreprocess(func(blk *pbbstream.Block) (interface{}, error) {
			return c06Token(blk), nil
		}, 1+in.SSel%3))
	}
	var src *bstream.FileSource
	if in.Pass {
		lo := e.Lib.Num
		if lo > 2 {
			lo -= 2
		} else {
			lo = 0
		}
		if lo < in.Root.Num {
			lo = in.Root.Num
		}
		// every start block from a little below the cursor LIB to a little above the cursor block (a target cursor below
		// the start block has already passed)
		span := int(e.CBlk.Num-lo) + 1
		if span < 1 {
			span = 1
		}
		span += 3
		obs.Start = lo + uint64(in.SSel%span)
		if obs.Start > stop {
			obs.Start = stop // nothing exists above the last canonical block: the source would wait for it
		}
		src = bstream.NewFileSourceThroughCursor(merged, forkedStore, obs.Start, cur, h, zap.NewNop(), opts...)
	} else {
		obs.Start = e.Lib.Num
		src = bstream.NewFileSourceFromCursor(merged, forkedStore, cur, h, zap.NewNop(), opts...)
	}
	done := make(chan struct{})
	panicked := false
	go func() {
		defer close(done)
		defer func() {
			if r := recover(); r != nil {
				panicked = true
			}
		}()
		src.Run()
	}()
	select {
	case <-done:
	case <-time.After(6 * time.Second):
		src.Shutdown(context.Canceled)
		obs.Err = 4
		obs.ErrText = "hang"
		obs.Events = got
		return obs, true
	}
	obs.Events = got
	if obs.Events == nil {
		obs.Events = []fkEvent{}
	}
	err := src.Err()
	switch {
	case panicked:
		obs.Err = 4
	case err == nil:
		obs.Err = 0
	case errors.Is(err, bstream.ErrStopBlockReached):
		obs.Err = 1
	case errors.Is(err, bstream.ErrResolveCursor):
		obs.Err = 2
	default:
		obs.Err = 3
		obs.ErrText = err.Error()
		if strings.Contains(obs.ErrText, "not implemented") {
			obs.ErrText = "not implemented"
		}
	}
	if obs.ObjErr != "" && obs.Err != 4 {
		obs.ErrRun = obs.Err
		obs.Err = 6 // no model outcome and no property clause accepts it: mismatch + property rejected, with this replay
	}
	return obs, true
}

func coqBlocks(bl []fkBlock) string {
	s := make([]string, len(bl))
	for i, b := range bl {
		s[i] = coqFkBlock(b)
	}
	return coqList(s)
}
func coqEvents(evs []fkEvent) string {
	s := make([]string, len(evs))
	for i, e := range evs {
		s[i] = coqFkEvent(e)
	}
	return coqList(s)
}

func c06Gen(r *Rng, i int, tier string) any {
	in := &c06Input{}
	in.First = uint64([]int{0, 0, 1}[r.Intn(3)])
	n := 4 + r.Intn(18)
	t := fkGenTree(r, n, "excl", in.First, false)
	in.LIB = t.lib
	in.Root = t.byID[t.lib.ID]
	var shape string
	in.History, shape = fkOrder(r, t, "none")
	in.Shape = shape
	in.Extra = 1 + r.Intn(5)
	in.Bundle = uint64(5 + r.Intn(6))
	in.KSel = r.Intn(1 << 20)
	in.SSel = r.Intn(1 << 20)
	c := r.Intn(100)
	switch {
	case c < 45:
	case c < 65:
		in.Undo = true
	case c < 78:
		in.Final = true
	default:
		in.Pass = true
		in.Undo = r.Chance(30)
		in.Final = r.Chance(30) // a final target cursor
	}
	in.Forked = r.Chance(55)
	if r.Chance(25) {
		for k := 0; k < 1+r.Intn(3); k++ {
			in.Missing = append(in.Missing, r.Intn(1<<16))
		}
	}
	return in
}

func c06Exec(raw json.RawMessage) (*Case, error) {
	var in c06Input
	if err := json.Unmarshal(raw, &in); err != nil {
		return nil, err
	}
	obs, ran := c06Run(&in)
	cs := &Case{Obs: obs, Key: string(raw)}
	if !ran {
		// no usable cursor in this history: a trivially true case
		cs.Coq = "mkC06 (mkCursor SNew (mkR 0 0) (mkR 0 0) (mkR 0 0)) false 0 0 0 [] [] [] [] 0"
		cs.Class = "nocursor"
		return cs, nil
	}
	cs.Coq = fmt.Sprintf("mkC06 %s %s %d %d %d %s %s %s %s %d", coqBrCursor(obs.Cursor), coqBool(in.Pass), obs.Start, obs.Stop, in.Bundle,
		coqBlocks(obs.Canon), coqBlocks(obs.Forked), coqEvents(obs.Live), coqEvents(obs.Events), obs.Err)
	mode := "from"
	if in.Pass {
		mode = "through"
	}
	kind := map[int]string{1: "new", 2: "undo", 16: "final"}[obs.Cursor.Step]
	nundo := 0
	for _, e := range obs.Events {
		if e.Step == 2 {
			nundo++
		}
	}
	cs.Class = fmt.Sprintf("%s/%s/err%d", mode, kind, obs.Err)
	if in.Pass && obs.Start > obs.Cursor.Blk.Num {
		cs.Class += "/cursor-passed"
	}
	if nundo > 0 {
		cs.Class += "/forked"
	}
	if len(in.Missing) > 0 {
		cs.Class += "/missing"
	}
	if in.KSel%2 == 1 {
		cs.Class += "/pre"
	}
	cs.Nontrivial = len(obs.Events) > 0 || obs.Err == 2
	cs.Tags = []string{fmt.Sprintf("undos=%d events=%d", nundo, len(obs.Events))}
	return cs, nil
}

func init() {
	props["C06"] = &Prop{Gen: c06Gen, Exec: c06Exec}
}
