package main

// C12: Shutdown at any instant stops every source; handlers are never run concurrently.
//
// Real EternalSource / JoiningSource / MultiplexedSource / hub.Subscription (through a real
// ForkableHub) / FileSource (over a mock store) are driven with scripted inner sources and
// handlers.  A complete Shutdown is injected (a) from inside caller-supplied factories, (b) from
// inside handler calls, (c) at the `verifPoint` schedule points of the hooks patch, (d) when
// nothing moves any more, (e) at uncontrolled random instants.  Directed runs (a-d) are sequential
// by construction, so their event log is deterministic and is compared with the log of the Coq
// model run on the same schedule; random runs are checked against the property only.

import (
	"bytes"
	"encoding/json"
	"errors"
	"fmt"
	"io"
	"strconv"
	"strings"
	"sync"
	"sync/atomic"
	"time"

	"github.com/streamingfast/bstream"
	"github.com/streamingfast/bstream/hub"
	pbbstream "github.com/streamingfast/bstream/pb/sf/bstream/v1"
	"github.com/streamingfast/dstore"
	"github.com/streamingfast/shutter"
	"go.uber.org/zap"
)

type c12Ev struct {
	B    int  `json:"b"`
	Ok   bool `json:"ok"`
	Fail bool `json:"fail,omitempty"` // the inner source fails on its own
	Join bool `json:"join,omitempty"` // joining, file script: the live factory gives a source at this block
	H    int  `json:"h,omitempty"`    // height when it differs from the identity B (forks: equal or lower heights follow higher ones)
}

// c12Ident recovers the identity B of a block from its id ("%08x" + suffix); 0 for the empty ref
func c12Ident(id string) int {
	if len(id) < 8 {
		return 0
	}
	v, err := strconv.ParseUint(id[:8], 16, 64)
	if err != nil {
		return 0
	}
	return int(v)
}
type c12Inj struct {
	Mode    string `json:"mode"` // point | handler | factory | idle | random
	Point   int    `json:"point,omitempty"`
	N       int    `json:"n,omitempty"`
	DelayUs int    `json:"delay_us,omitempty"`
}
type c12Cmd struct {
	Op    string `json:"op"` // round | deliver | shutdown | arm | hold | release
	K     int    `json:"k,omitempty"`
	Point int    `json:"point,omitempty"`
	N     int    `json:"n,omitempty"`
}
type c12In struct {
	Kind      string    `json:"kind"`
	Supply    [][]c12Ev `json:"supply,omitempty"`
	LiveFirst bool      `json:"live_first,omitempty"`
	FileAvail bool      `json:"file_avail,omitempty"`
	FScript   []c12Ev   `json:"fscript,omitempty"`
	LScript   []c12Ev   `json:"lscript,omitempty"`
	Blocks    []c12Ev   `json:"blocks,omitempty"`
	Store     [][]c12Ev `json:"store,omitempty"`
	Stop      bool      `json:"stop,omitempty"`
	NSlots    int       `json:"nslots,omitempty"`
	Cmds      []c12Cmd  `json:"cmds,omitempty"`
	Inj       c12Inj    `json:"inj"`
	Seed      uint64    `json:"seed,omitempty"`
	FailAt    int       `json:"fail_at,omitempty"` // stress: handler call that fails (0 = none)
	SlowAt    int       `json:"slow_at,omitempty"` // stress: handler call that takes 2 ms and during which Shutdown is called (0 = none)
}

type c12Lev struct {
	K  string `json:"k"` // P point | F factory | HB | HE | D down | R returned
	A  int    `json:"a"`
	B  int    `json:"b"`
	Ok bool   `json:"ok"`
}
type c12Obs struct {
	Log      []c12Lev `json:"log"`
	Returned bool     `json:"returned"`
	Term     bool     `json:"terminated"`
	After    int      `json:"calls_after"`
	Overlap  bool     `json:"overlap"`
	AllShut  bool     `json:"all_inner_shut"`
	Hang     bool     `json:"hang"`
	Panic    string   `json:"panic,omitempty"`
}

const c12Watchdog = 2 * time.Second

// offset added to the logged restart identity when the restart reference carries the wrong block number (identities are < 500)
const c12BadRefNum = 500

var c12Points = map[string]int{
	"eternal.after_check": 0, "eternal.after_factory": 1, "eternal.after_assign": 2, "eternal.inner_terminated": 3, "eternal.after_sleep": 4,
	"joining.live_obtained": 10, "joining.live_registered": 11, "joining.file_obtained": 12, "joining.file_registered": 13,
	"joining.joined": 14, "joining.joined_registered": 15, "joining.handler_live_obtained": 16,
	"mux.after_check": 20, "mux.before_sleep": 21, "mux.connect_checked": 22, "mux.before_lockedinit": 23,
	"mux.after_lockedinit": 24, "mux.handler_locked": 25, "mux.handler_unlocked": 26,
}

var c12Leaked int32 // goroutines left behind by hung cases (bounded)

// ---------------------------------------------------------------- run context

type c12Ctx struct {
	mu       sync.Mutex
	log      []c12Lev
	record   bool // record the log (directed runs)
	hbegun   int
	pcount   map[int]int
	active   int32
	overlap  int32
	runRet   int32
	term     func() bool
	lateIf   func() bool // when set: a handler call is late iff this holds at its begin (multiplexed scenarios: IsTerminating)
	prePoint func(p int) // called when a schedule point is reached, before it is logged
	after    int32
	failed   int32 // a handler call returned an error
	onPoint  func(p, count int)
	idle     chan int
	fired    chan struct{}
	firedOne sync.Once
	inners   []*c12Src
	nums     sync.Map // block id -> block number, of every block given to the handler
}

func newC12Ctx(record bool) *c12Ctx {
	return &c12Ctx{record: record, pcount: map[int]int{}, idle: make(chan int, 1024), fired: make(chan struct{})}
}
func (c *c12Ctx) add(e c12Lev) {
	if !c.record {
		return
	}
	c.mu.Lock()
	c.log = append(c.log, e)
	c.mu.Unlock()
}
func (c *c12Ctx) fire() { c.firedOne.Do(func() { close(c.fired) }) }
func (c *c12Ctx) point(name string) {
	p, ok := c12Points[name]
	if !ok {
		return
	}
	if c.prePoint != nil {
		c.prePoint(p)
	}
	c.mu.Lock()
	c.pcount[p]++
	n := c.pcount[p]
	if c.record {
		c.log = append(c.log, c12Lev{K: "P", A: p})
	}
	f := c.onPoint
	c.mu.Unlock()
	if f != nil {
		f(p, n)
	}
}
func (c *c12Ctx) begin(src, b int) int {
	if atomic.AddInt32(&c.active, 1) > 1 {
		atomic.StoreInt32(&c.overlap, 1)
	}
	if c.lateIf != nil {
		if c.lateIf() {
			atomic.AddInt32(&c.after, 1)
		}
	} else if atomic.LoadInt32(&c.runRet) == 1 && c.term != nil && c.term() {
		// no handler call begins after Run returned and Terminated was reached (for every kind of source)
		atomic.AddInt32(&c.after, 1)
	}
	c.mu.Lock()
	c.hbegun++
	n := c.hbegun
	if c.record {
		c.log = append(c.log, c12Lev{K: "HB", A: src, B: b})
	}
	c.mu.Unlock()
	return n
}
func (c *c12Ctx) end(src, b int, ok bool) {
	if !ok {
		atomic.StoreInt32(&c.failed, 1)
	}
	c.add(c12Lev{K: "HE", A: src, B: b, Ok: ok})
	atomic.AddInt32(&c.active, -1)
}

var errC12Handler = errors.New("handler failed")
var errC12Inner = errors.New("inner source failed")

// handler with the ok flag / source id carried by the block (see c12Block)
func (c *c12Ctx) handler(inside func(n int), work func()) bstream.Handler {
	return bstream.HandlerFunc(func(blk *pbbstream.Block, obj interface{}) error {
		src, _ := strconv.Atoi(blk.ParentId)
		ok := !strings.HasSuffix(blk.Id, "f")
		b := c12Ident(blk.Id)
		c.nums.Store(blk.Id, blk.Number) // W1: the number each delivered block id carries (restart references are id AND number)
		n := c.begin(src, b)
		if inside != nil {
			inside(n)
		}
		if work != nil {
			work()
		}
		c.end(src, b, ok)
		if !ok {
			return errC12Handler
		}
		return nil
	})
}

func c12Block(src int, ev c12Ev) *pbbstream.Block {
	suf := "a"
	if !ev.Ok {
		suf = "f"
	}
	h := ev.B
	if ev.H > 0 {
		h = ev.H
	}
	return &pbbstream.Block{Number: uint64(h), Id: fmt.Sprintf("%08x%s", ev.B, suf), ParentId: strconv.Itoa(src)}
}

// ---------------------------------------------------------------- scripted inner source (obeys the Source contract)

type c12Src struct {
	*shutter.Shutter
	ctx      *c12Ctx
	id       int
	script   []c12Ev
	h        bstream.Handler
	token    chan struct{} // nil: delivers on its own
	ack      chan struct{}
	idleCh   chan struct{}
	done     chan struct{}
	started  int32
	expect   int32 // the multiplexed source has started this source (`go newSrc.Run()` was reached)
	sleepUs  int
	preJoin  func() // joining: called before delivering a Join event
	selfFail chan struct{}
	entering chan struct{} // signalled (non-blocking) just before each handler call
}

func newC12Src(ctx *c12Ctx, id int, script []c12Ev, h bstream.Handler, tokens bool) *c12Src {
	s := &c12Src{Shutter: shutter.New(), ctx: ctx, id: id, script: script, h: h,
		ack: make(chan struct{}, 1), idleCh: make(chan struct{}), done: make(chan struct{}), selfFail: make(chan struct{}, 1),
		entering: make(chan struct{}, 1)}
	if tokens {
		s.token = make(chan struct{})
	}
	s.OnTerminating(func(error) { ctx.add(c12Lev{K: "D", A: id}) })
	ctx.mu.Lock()
	ctx.inners = append(ctx.inners, s)
	ctx.mu.Unlock()
	return s
}

func (s *c12Src) Run() {
	defer close(s.done)
	atomic.StoreInt32(&s.started, 1)
	for _, ev := range s.script {
		if s.token != nil {
			select {
			case <-s.Terminating():
				return
			case <-s.selfFail:
				s.Shutdown(errC12Inner)
				s.ack <- struct{}{}
				return
			case <-s.token:
			}
		} else if s.sleepUs > 0 {
			time.Sleep(time.Duration(s.sleepUs) * time.Microsecond)
		}
		if s.IsTerminating() {
			if s.token != nil {
				s.ack <- struct{}{}
			}
			return
		}
		if ev.Fail {
			s.Shutdown(errC12Inner)
			if s.token != nil {
				s.ack <- struct{}{}
			}
			return
		}
		if ev.Join && s.preJoin != nil {
			s.preJoin()
		}
		select {
		case s.entering <- struct{}{}:
		default:
		}
		err := s.h.ProcessBlock(c12Block(s.id, ev), nil)
		if err != nil {
			s.Shutdown(err)
			if s.token != nil {
				s.ack <- struct{}{}
			}
			return
		}
		if s.token != nil {
			s.ack <- struct{}{}
		}
	}
	close(s.idleCh)
	select {
	case s.ctx.idle <- s.id:
	default:
	}
	select {
	case <-s.Terminating():
	case <-s.selfFail:
		s.Shutdown(errC12Inner)
		s.ack <- struct{}{}
	}
}
func (s *c12Src) SetLogger(*zap.Logger) {}

// deliver lets a token-driven source perform its next script event; false when it cannot
func (s *c12Src) deliver() bool {
	if atomic.LoadInt32(&s.expect) == 1 {
		for i := 0; i < 20000 && atomic.LoadInt32(&s.started) == 0; i++ {
			time.Sleep(50 * time.Microsecond)
		}
	}
	if atomic.LoadInt32(&s.started) == 0 {
		return false
	}
	select {
	case <-s.done:
		return false
	case <-s.idleCh:
		return false
	case s.token <- struct{}{}:
	}
	select {
	case <-s.ack:
	case <-time.After(c12Watchdog):
	}
	return true
}

// deliverUntil lets a token-driven source perform its next script event and waits for its completion (1) or for a
// signal on sig, whichever comes first (2: the source is then still busy: inside a parked handler call, or on its way
// into the handler wrapper); 0 when the source cannot deliver
func (s *c12Src) deliverUntil(sig chan struct{}) int {
	if atomic.LoadInt32(&s.expect) == 1 {
		for i := 0; i < 20000 && atomic.LoadInt32(&s.started) == 0; i++ {
			time.Sleep(50 * time.Microsecond)
		}
	}
	if atomic.LoadInt32(&s.started) == 0 {
		return 0
	}
	select {
	case <-sig:
	default:
	}
	select {
	case <-s.done:
		return 0
	case <-s.idleCh:
		return 0
	case s.token <- struct{}{}:
	}
	select {
	case <-s.ack:
		return 1
	case <-sig:
		return 2
	case <-time.After(c12Watchdog):
	}
	return 1
}

// ---------------------------------------------------------------- generic driver

// c12Drive starts run() (the source's Run) and waits: a directed injection may fire on the way; when the
// system goes idle (or Run returns) and no Shutdown was made yet, Shutdown is called from here.
func c12Drive(ctx *c12Ctx, in *c12In, run func(), shutdown func(), isTerminated func() bool, obs *c12Obs) {
	runDone := make(chan struct{})
	ctx.term = isTerminated
	go func() {
		defer func() {
			if r := recover(); r != nil {
				obs.Panic = "panic"
			}
			atomic.StoreInt32(&ctx.runRet, 1)
			ctx.add(c12Lev{K: "R"})
			close(runDone)
		}()
		run()
	}()
	if in.Inj.Mode == "random" {
		time.Sleep(time.Duration(in.Inj.DelayUs) * time.Microsecond)
		go shutdown()
	} else {
		selfReturned := false
		select {
		case <-runDone:
			selfReturned = true
		case <-ctx.fired:
		case <-ctx.idle:
			// quiescent: the running inner source has nothing left to deliver
		case <-time.After(3 * time.Second):
		}
		select {
		case <-ctx.fired:
		default:
			if selfReturned {
				// Run returned without anybody calling Shutdown (handler error, stop block, failure of an inner
				// source): the source must reach Terminated by itself, our Shutdown below must not mask it
				for i := 0; i < 300 && !isTerminated(); i++ {
					time.Sleep(time.Millisecond)
				}
				if !isTerminated() {
					obs.Returned = true
					obs.Hang = true
					atomic.AddInt32(&c12Leaked, 1)
					return
				}
			}
			// no directed injection happened (or Run is over): plain Shutdown from this goroutine,
			// in the background so that a blocked Shutdown cannot block the harness
			go shutdown()
		}
	}
	deadline := time.After(c12Watchdog)
	select {
	case <-runDone:
		obs.Returned = true
	case <-deadline:
	}
	for i := 0; i < 200 && !isTerminated(); i++ {
		select {
		case <-deadline:
			i = 200
		default:
			time.Sleep(time.Millisecond)
		}
	}
	obs.Term = isTerminated()
	if !obs.Returned || !obs.Term {
		obs.Hang = true
		atomic.AddInt32(&c12Leaked, 1)
	}
}

func c12Finish(ctx *c12Ctx, obs *c12Obs) {
	// give stray handler calls a chance to show up
	time.Sleep(200 * time.Microsecond)
	ctx.mu.Lock()
	obs.Log = append([]c12Lev(nil), ctx.log...)
	ctx.mu.Unlock()
	obs.After = int(atomic.LoadInt32(&ctx.after))
	obs.Overlap = atomic.LoadInt32(&ctx.overlap) == 1
	obs.AllShut = true
}

// ---------------------------------------------------------------- eternal

func c12ExecEternal(in *c12In) *c12Obs {
	obs := &c12Obs{}
	directed := in.Inj.Mode != "random"
	ctx := newC12Ctx(true)
	bstream.SetVerifEternalRestartWaitTime(0)
	var es *bstream.EternalSource
	shutdown := func() { es.Shutdown(nil) }
	inject := func() { ctx.fire(); shutdown() }
	h := ctx.handler(func(n int) {
		if in.Inj.Mode == "handler" && n == in.Inj.N {
			inject()
		}
	}, nil)
	nfac := 0
	factory := func(ref bstream.BlockRef, h2 bstream.Handler) bstream.Source {
		nfac++
		if in.Inj.Mode == "factory" && nfac == in.Inj.N {
			inject()
		}
		// W1: a restart point is a block REFERENCE (id and number).  The log keeps one number per factory call: the identity
		// of the referenced block, shifted by c12BadRefNum when the reference's number is not the number that block
		// carried when it was given to the handler (0 for the empty reference) — such a value equals no accepted identity
		rb := c12Ident(ref.ID())
		wantNum := uint64(0)
		if v, ok := ctx.nums.Load(ref.ID()); ok {
			wantNum = v.(uint64)
		}
		if ref.Num() != wantNum {
			rb += c12BadRefNum
		}
		ctx.add(c12Lev{K: "F", A: 0, B: rb})
		var script []c12Ev
		if nfac-1 < len(in.Supply) {
			script = in.Supply[nfac-1]
		}
		src := newC12Src(ctx, nfac-1, script, h2, false)
		if !directed {
			src.sleepUs = int(in.Seed%7) * 10
		}
		return src
	}
	es = bstream.NewEternalSource(factory, h)
	ctx.onPoint = func(p, n int) {
		if in.Inj.Mode == "point" && p == in.Inj.Point && n == in.Inj.N {
			inject()
		}
	}
	bstream.SetVerifHook(ctx.point)
	c12Drive(ctx, in, es.Run, shutdown, es.IsTerminated, obs)
	bstream.SetVerifHook(nil)
	c12Finish(ctx, obs)
	return obs
}

// ---------------------------------------------------------------- joining

type c12Factory struct {
	fn func(num uint64, h bstream.Handler) bstream.Source
}

func (f *c12Factory) SourceFromBlockNum(num uint64, h bstream.Handler) bstream.Source {
	return f.fn(num, h)
}
func (f *c12Factory) SourceFromCursor(*bstream.Cursor, bstream.Handler) bstream.Source { return nil }
func (f *c12Factory) SourceThroughCursor(uint64, *bstream.Cursor, bstream.Handler) bstream.Source {
	return nil
}

func c12ExecJoining(in *c12In) *c12Obs {
	obs := &c12Obs{}
	ctx := newC12Ctx(true)
	var js *bstream.JoiningSource
	shutdown := func() { js.Shutdown(nil) }
	inject := func() { ctx.fire(); shutdown() }
	h := ctx.handler(func(n int) {
		if in.Inj.Mode == "handler" && n == in.Inj.N {
			inject()
		}
	}, nil)
	firstFactory := true
	// factory injection: N = 1 inside the first factory call that gives a source; N >= 2 inside the live-factory call of the
	// join (seeded mutant C12-m8: a Shutdown that completes there must still stop the live source that call returns)
	factoryInj := func(isJoin bool) {
		if in.Inj.Mode == "factory" {
			if in.Inj.N >= 2 {
				if isJoin {
					inject()
				}
			} else if firstFactory {
				inject()
			}
		}
		firstFactory = false
	}
	liveCalls := 0
	joinPending := false
	var liveSrc bstream.Source
	live := &c12Factory{fn: func(num uint64, h2 bstream.Handler) bstream.Source {
		liveCalls++
		if (liveCalls == 1 && in.LiveFirst) || joinPending {
			isJoin := joinPending
			joinPending = false
			factoryInj(isJoin)
			ctx.add(c12Lev{K: "F", A: 1})
			// bstream.Source(nil) vs typed nil: always return a real source here
			s := newC12Src(ctx, 1, in.LScript, h2, false)
			liveSrc = s
			return s
		}
		return nil
	}}
	file := &c12Factory{fn: func(num uint64, h2 bstream.Handler) bstream.Source {
		if !in.FileAvail {
			return nil
		}
		factoryInj(false)
		ctx.add(c12Lev{K: "F", A: 0})
		s := newC12Src(ctx, 0, in.FScript, h2, false)
		s.preJoin = func() { joinPending = true }
		return s
	}}
	_ = liveSrc
	js = bstream.NewJoiningSource(file, live, h, 1, nil, false, zap.NewNop())
	ctx.onPoint = func(p, n int) {
		if in.Inj.Mode == "point" && p == in.Inj.Point && n == in.Inj.N {
			inject()
		}
	}
	bstream.SetVerifHook(ctx.point)
	c12Drive(ctx, in, js.Run, shutdown, js.IsTerminated, obs)
	bstream.SetVerifHook(nil)
	c12Finish(ctx, obs)
	return obs
}

// ---------------------------------------------------------------- hub subscription (through a real ForkableHub)

func c12NewHub() (*hub.ForkableHub, *bstream.TestSource, error) {
	lsf := bstream.NewTestSourceFactory()
	obsf := bstream.NewTestSourceFactory()
	fh := hub.NewForkableHub(lsf.NewSource, bstream.SourceFromNumFactory(obsf.SourceFromBlockNum), 0)
	go fh.Run()
	var ls *bstream.TestSource
	select {
	case ls = <-lsf.Created:
	case <-time.After(time.Second):
		return nil, nil, errors.New("hub live source not created")
	}
	go func() {
		select {
		case obs := <-obsf.Created:
			// the bootstrap source must shut down when done, or the hub waits for ever
			for _, b := range []*pbbstream.Block{
				bstream.TestBlockWithLIBNum("00000003", "00000002", 2),
				bstream.TestBlockWithLIBNum("00000004", "00000003", 2),
				bstream.TestBlockWithLIBNum("00000005", "00000004", 2),
				bstream.TestBlockWithLIBNum("00000008", "00000005", 3),
			} {
				_ = obs.Push(b, nil)
			}
			obs.Shutdown(io.EOF)
		case <-time.After(time.Second):
		}
	}()
	if err := ls.Push(bstream.TestBlockWithLIBNum("00000009", "00000008", 3), nil); err != nil {
		return nil, nil, err
	}
	if err := ls.Push(bstream.TestBlockWithLIBNum("0000000a", "00000009", 4), nil); err != nil {
		return nil, nil, err
	}
	select {
	case <-fh.Ready:
	case <-time.After(time.Second):
		return nil, nil, errors.New("hub not ready")
	}
	return fh, ls, nil
}

// the subscription gets 4 blocks (5, 8, 9, a) as its initial burst and len(blocks)-4 more through the live source
func c12ExecSub(in *c12In) (*c12Obs, error) {
	obs := &c12Obs{}
	ctx := newC12Ctx(true)
	fh, ls, err := c12NewHub()
	if err != nil {
		return nil, err
	}
	defer func() { fh.Shutdown(nil); ls.Shutdown(nil) }()
	var sub bstream.Source
	shutdown := func() { sub.Shutdown(nil) }
	inject := func() { ctx.fire(); shutdown() }
	total := len(in.Blocks)
	random := in.Inj.Mode == "random"
	handler := bstream.HandlerFunc(func(blk *pbbstream.Block, obj interface{}) error {
		ctx.mu.Lock()
		ord := ctx.hbegun + 1
		ctx.mu.Unlock()
		ok := true
		if ord-1 < total {
			ok = in.Blocks[ord-1].Ok
		}
		n := ctx.begin(0, ord)
		if in.Inj.Mode == "handler" && n == in.Inj.N {
			inject()
		}
		ctx.end(0, ord, ok)
		if ord == total && ok {
			select {
			case ctx.idle <- 0:
			default:
			}
		}
		if !ok {
			return errC12Handler
		}
		return nil
	})
	sub = fh.SourceFromBlockNum(5, handler)
	if sub == nil {
		return nil, errors.New("hub gave no subscription")
	}
	push := func(i int) {
		id := fmt.Sprintf("%08x", 0xb+i)
		prev := fmt.Sprintf("%08x", 0xa+i)
		_ = ls.Push(bstream.TestBlockWithLIBNum(id, prev, 4), nil) // LIB unchanged: one event per block
	}
	if !random {
		for i := 0; i < total-4; i++ {
			push(i)
		}
	} else {
		go func() {
			for i := 0; i < total-4; i++ {
				push(i)
				time.Sleep(time.Duration(in.Seed%5) * 20 * time.Microsecond)
			}
		}()
	}
	if total == 0 {
		ctx.idle <- 0
	}
	c12Drive(ctx, in, sub.Run, shutdown, sub.IsTerminated, obs)
	c12Finish(ctx, obs)
	return obs, nil
}

// ---------------------------------------------------------------- file source

const c12Bundle = 3

func c12ExecFile(in *c12In) (*c12Obs, error) {
	obs := &c12Obs{}
	ctx := newC12Ctx(true)
	store := dstore.NewMockStore(nil)
	var flat []c12Ev
	prevID := "00"
	var lastNum uint64
	for fi, f := range in.Store {
		buf := &bytes.Buffer{}
		w, err := bstream.NewDBinBlockWriter(buf)
		if err != nil {
			return nil, err
		}
		for i, ev := range f {
			num := uint64((fi+1)*c12Bundle + i)
			id := fmt.Sprintf("%08xa", num)
			blk := bstream.TestBlockWithNumbers(id, prevID, num, 0)
			if err := w.Write(blk); err != nil {
				return nil, err
			}
			prevID = id
			lastNum = num
			flat = append(flat, ev)
		}
		store.SetFile(fmt.Sprintf("%010d", (fi+1)*c12Bundle), buf.Bytes())
	}
	total := len(flat)
	var fs *bstream.FileSource
	shutdown := func() { fs.Shutdown(nil) }
	inject := func() { ctx.fire(); shutdown() }
	handler := bstream.HandlerFunc(func(blk *pbbstream.Block, obj interface{}) error {
		ctx.mu.Lock()
		ord := ctx.hbegun + 1
		ctx.mu.Unlock()
		ok := true
		if ord-1 < total {
			ok = flat[ord-1].Ok
		}
		n := ctx.begin(0, ord)
		if in.Inj.Mode == "handler" && n == in.Inj.N {
			inject()
		}
		ctx.end(0, ord, ok)
		if ord == total && ok && !in.Stop {
			select {
			case ctx.idle <- 0:
			default:
			}
		}
		if !ok {
			return errC12Handler
		}
		return nil
	})
	opts := []bstream.FileSourceOption{bstream.FileSourceWithBundleSize(c12Bundle), bstream.FileSourceWithRetryDelay(2 * time.Millisecond)}
	if in.Stop && total > 0 {
		opts = append(opts, bstream.FileSourceWithStopBlock(lastNum))
	}
	fs = bstream.NewFileSource(store, c12Bundle, handler, zap.NewNop(), opts...)
	if total == 0 {
		ctx.idle <- 0
	}
	c12Drive(ctx, in, fs.Run, shutdown, fs.IsTerminated, obs)
	c12Finish(ctx, obs)
	return obs, nil
}

// ---------------------------------------------------------------- multiplexed: sequential scenarios

func c12ExecMux(in *c12In) *c12Obs {
	obs := &c12Obs{}
	ctx := newC12Ctx(true)
	bstream.SetVerifSourceReconnectDelay(0)
	var mx *bstream.MultiplexedSource
	var armed atomic.Value // c12Cmd
	armed.Store(c12Cmd{})
	gate := make(chan struct{})   // grants one round to the Run goroutine
	parked := make(chan struct{}, 1)
	var gating int32 = 1
	var asyncDone chan struct{} // a Shutdown started under sourcesLock, still running
	var shutOnce sync.Once
	shutdownCalled := int32(0)
	doShutdown := func() { atomic.StoreInt32(&shutdownCalled, 1); mx.Shutdown(nil) }
	// hold / release: the next handler call to begin parks inside the handler (its goroutine keeps handlerLock)
	var holdArmed int32
	heldSig := make(chan struct{}, 1)
	var heldRel chan struct{}
	var heldMu sync.Mutex
	// while a call is parked and another inner source waits for handlerLock, that source is kept at mux.handler_locked
	// (before the point is logged) until the goroutine of the parked call is done, so that the log is sequential
	var gateOn int32
	var gateCh chan struct{}
	ctx.prePoint = func(p int) {
		if p == 25 && atomic.LoadInt32(&gateOn) == 1 {
			heldMu.Lock()
			g := gateCh
			heldMu.Unlock()
			select {
			case <-g:
			case <-time.After(2 * c12Watchdog):
			}
		}
	}
	h := ctx.handler(func(n int) {
		a := armed.Load().(c12Cmd)
		if a.Op == "arm" && a.Point == 27 && n == a.N {
			armed.Store(c12Cmd{})
			doShutdown()
		}
		if atomic.CompareAndSwapInt32(&holdArmed, 1, 0) {
			rel := make(chan struct{})
			heldMu.Lock()
			heldRel = rel
			heldMu.Unlock()
			heldSig <- struct{}{}
			select {
			case <-rel:
			case <-time.After(4 * c12Watchdog):
			}
		}
	}, nil)
	var supplyMu sync.Mutex
	nsrc := 0
	mkFactory := func(slot int) bstream.SourceFactory {
		return func(h2 bstream.Handler) bstream.Source {
			supplyMu.Lock()
			k := nsrc
			nsrc++
			supplyMu.Unlock()
			ctx.add(c12Lev{K: "F", A: slot})
			var script []c12Ev
			if k < len(in.Supply) {
				script = in.Supply[k]
			}
			return newC12Src(ctx, k, script, h2, true)
		}
	}
	var factories []bstream.SourceFactory
	for i := 0; i < in.NSlots; i++ {
		factories = append(factories, mkFactory(i))
	}
	mx = bstream.NewMultiplexedSource(factories, h)
	var release func(underLock bool)
	ctx.onPoint = func(p, n int) {
		if p == 24 && !mx.IsTerminating() {
			// LockedInit accepted: the source created last is being started
			ctx.mu.Lock()
			if len(ctx.inners) > 0 {
				atomic.StoreInt32(&ctx.inners[len(ctx.inners)-1].expect, 1)
			}
			ctx.mu.Unlock()
		}
		a := armed.Load().(c12Cmd)
		if a.Op == "arm" && a.Point == p && n == a.N {
			armed.Store(c12Cmd{})
			switch p {
			case 22, 23, 24:
				// sourcesLock is held by this goroutine: a complete Shutdown is impossible here; let it
				// run until the terminating channel is closed, it completes once the lock is released
				d := make(chan struct{})
				asyncDone = d
				go func() { doShutdown(); close(d) }()
				for !mx.IsTerminating() {
					time.Sleep(20 * time.Microsecond)
				}
				// a parked handler call is released now (the main goroutine is waiting for this round to end): the
				// source waiting for handlerLock makes its test while the source is terminating, not yet terminated
				release(true)
			default:
				doShutdown()
			}
		}
		if p == 21 && asyncDone != nil {
			select {
			case <-asyncDone:
			case <-time.After(c12Watchdog):
			}
			asyncDone = nil
		}
		if p == 20 && atomic.LoadInt32(&gating) == 1 {
			select {
			case parked <- struct{}{}:
			default:
			}
			<-gate
		}
	}
	bstream.SetVerifHook(ctx.point)
	runDone := make(chan struct{})
	ctx.term = mx.IsTerminated
	// scenarios are sequential: a handler call that begins while the terminating channel is closed is a late call
	// (the wrapper tests the channel and calls the handler with no schedule point in between)
	ctx.lateIf = mx.IsTerminating
	go func() {
		defer func() {
			atomic.StoreInt32(&ctx.runRet, 1)
			ctx.add(c12Lev{K: "R"})
			close(runDone)
		}()
		mx.Run()
	}()
	waitParked := func() bool {
		select {
		case <-parked:
			return true
		case <-runDone:
			return false
		case <-time.After(c12Watchdog):
			return false
		}
	}
	isParked := waitParked()
	failChecked, failShutOK := false, true
	inner := func(k int) *c12Src {
		ctx.mu.Lock()
		defer ctx.mu.Unlock()
		if k < 0 || k >= len(ctx.inners) {
			return nil
		}
		return ctx.inners[k]
	}
	checkFail := func() {
		if atomic.LoadInt32(&ctx.failed) == 1 && !failChecked {
			// the handler just failed: by now (no other Shutdown needed) the multiplexed source must be
			// terminated and every inner source it started must be shut down
			failChecked = true
			if !mx.IsTerminated() {
				failShutOK = false
			}
			ctx.mu.Lock()
			for _, s := range ctx.inners {
				if atomic.LoadInt32(&s.expect) == 1 && !s.IsTerminating() {
					failShutOK = false
				}
			}
			ctx.mu.Unlock()
		}
	}
	held, waiter := -1, -1
	waitAck := func(k int) {
		if s := inner(k); s != nil {
			select {
			case <-s.ack:
			case <-time.After(c12Watchdog):
			}
		}
	}
	release = func(underLock bool) {
		if held < 0 {
			return
		}
		heldMu.Lock()
		rel := heldRel
		heldMu.Unlock()
		close(rel)
		waitAck(held)
		if underLock {
			// another Shutdown is in progress (waiting for sourcesLock): a handler failure does not terminate the source by itself
			if atomic.LoadInt32(&ctx.failed) == 1 {
				failChecked = true
			}
		} else {
			checkFail()
		}
		if waiter >= 0 {
			atomic.StoreInt32(&gateOn, 0)
			heldMu.Lock()
			close(gateCh)
			heldMu.Unlock()
			waitAck(waiter)
		}
		held, waiter = -1, -1
	}
	for _, c := range in.Cmds {
		switch c.Op {
		case "round":
			if isParked {
				gate <- struct{}{}
				isParked = waitParked()
			}
		case "deliver":
			s := inner(c.K)
			switch {
			case s == nil:
			case held >= 0:
				// a call is parked inside the handler: one other source may run into handlerLock and wait there
				if c.K != held && waiter < 0 {
					heldMu.Lock()
					gateCh = make(chan struct{})
					heldMu.Unlock()
					atomic.StoreInt32(&gateOn, 1)
					if s.deliverUntil(s.entering) == 2 {
						waiter = c.K
					} else {
						atomic.StoreInt32(&gateOn, 0)
					}
				}
			case atomic.LoadInt32(&holdArmed) == 1:
				if s.deliverUntil(heldSig) == 2 {
					held = c.K
				}
			default:
				s.deliver()
			}
			checkFail()
		case "hold":
			if held < 0 {
				atomic.StoreInt32(&holdArmed, 1)
			}
		case "release":
			release(false)
		case "shutdown":
			shutOnce.Do(func() {})
			d := make(chan struct{})
			go func() { doShutdown(); close(d) }()
			select {
			case <-d:
			case <-time.After(c12Watchdog):
			}
		case "arm":
			armed.Store(c)
		}
	}
	// finish: let a parked handler call return, make sure a Shutdown was called, release the Run goroutine for good
	release(false)
	d := make(chan struct{})
	go func() { doShutdown(); close(d) }()
	select {
	case <-d:
	case <-time.After(c12Watchdog):
	}
	atomic.StoreInt32(&gating, 0)
	if isParked {
		select {
		case gate <- struct{}{}:
		case <-time.After(c12Watchdog):
		}
	}
	select {
	case <-runDone:
		obs.Returned = true
	case <-time.After(c12Watchdog):
	}
	for i := 0; i < 2000 && !mx.IsTerminated(); i++ {
		time.Sleep(time.Millisecond)
	}
	obs.Term = mx.IsTerminated()
	if !obs.Returned || !obs.Term {
		obs.Hang = true
		atomic.AddInt32(&c12Leaked, 1)
	}
	bstream.SetVerifHook(nil)
	c12Finish(ctx, obs)
	ctx.mu.Lock()
	for _, s := range ctx.inners {
		if atomic.LoadInt32(&s.started) == 1 && !s.IsTerminating() {
			obs.AllShut = false
		}
	}
	ctx.mu.Unlock()
	if !failShutOK {
		obs.AllShut = false
	}
	return obs
}

// ---------------------------------------------------------------- multiplexed: free-running stress

func c12ExecMuxStress(in *c12In) *c12Obs {
	obs := &c12Obs{}
	ctx := newC12Ctx(false)
	r := NewRng(in.Seed)
	bstream.SetVerifSourceReconnectDelay(time.Duration(50+r.Intn(200)) * time.Microsecond)
	// "late" is judged at the wrapper's schedule point under handlerLock (hook 25, just before its IsTerminating test), not
	// at the first instruction of the user handler: between the wrapper's test and that instruction another goroutine's
	// Shutdown can complete and Run can return (a free-running case of seed 6 hit that window once: a false alarm).
	// handlerLock is held from the hook until the handler call ends, so one variable is enough.
	var lateAtLock int32
	bstream.SetVerifHook(func(name string) {
		if name == "mux.handler_locked" {
			late := int32(0)
			if atomic.LoadInt32(&ctx.runRet) == 1 && ctx.term != nil && ctx.term() {
				late = 1
			}
			atomic.StoreInt32(&lateAtLock, late)
		}
	})
	defer bstream.SetVerifHook(nil)
	ctx.lateIf = func() bool { return atomic.LoadInt32(&lateAtLock) == 1 }
	var mx *bstream.MultiplexedSource
	inCalls := int32(0)
	work := func() {
		if n := int(atomic.AddInt32(&inCalls, 1)); in.SlowAt > 0 && n == in.SlowAt {
			// a long handler call during which the source is shut down: the other inner sources queue up on
			// handlerLock meanwhile, Shutdown completes and Run returns before this call does
			time.Sleep(300 * time.Microsecond)
			go mx.Shutdown(nil)
			time.Sleep(2 * time.Millisecond)
		}
		for i := 0; i < 50; i++ {
			if atomic.LoadInt32(&ctx.active) > 1 {
				atomic.StoreInt32(&ctx.overlap, 1)
			}
		}
	}
	h := ctx.handler(nil, work)
	var mu sync.Mutex
	nsrc := 0
	calls := int32(0)
	var factories []bstream.SourceFactory
	for i := 0; i < in.NSlots; i++ {
		factories = append(factories, func(h2 bstream.Handler) bstream.Source {
			mu.Lock()
			k := nsrc
			nsrc++
			mu.Unlock()
			var script []c12Ev
			if k < len(in.Supply) {
				script = in.Supply[k]
			}
			wrapped := bstream.HandlerFunc(func(blk *pbbstream.Block, obj interface{}) error {
				n := int(atomic.AddInt32(&calls, 1))
				if in.FailAt > 0 && n == in.FailAt {
					blk.Id = blk.Id[:len(blk.Id)-1] + "f"
				}
				return h2.ProcessBlock(blk, obj)
			})
			s := newC12Src(ctx, k, script, wrapped, false)
			s.sleepUs = 1 + int(in.Seed+uint64(k))%40
			return s
		})
	}
	mx = bstream.NewMultiplexedSource(factories, h)
	ctx.term = mx.IsTerminated
	runDone := make(chan struct{})
	failNoShutdown := false
	go func() {
		defer func() { atomic.StoreInt32(&ctx.runRet, 1); close(runDone) }()
		mx.Run()
	}()
	if (in.FailAt == 0 && in.SlowAt == 0) || in.Inj.DelayUs > 0 {
		time.Sleep(time.Duration(in.Inj.DelayUs) * time.Microsecond)
		go mx.Shutdown(nil)
	} else {
		// wait for the handler failure (or the slow handler call) to shut the source down; fall back to a Shutdown
		select {
		case <-mx.Terminating():
		case <-time.After(300 * time.Millisecond):
			if in.FailAt > 0 && atomic.LoadInt32(&ctx.failed) == 1 {
				failNoShutdown = true // the handler failed and the source did not shut itself down
			}
			go mx.Shutdown(nil)
		}
	}
	select {
	case <-runDone:
		obs.Returned = true
	case <-time.After(c12Watchdog):
	}
	for i := 0; i < 2000 && !mx.IsTerminated(); i++ {
		time.Sleep(time.Millisecond)
	}
	obs.Term = mx.IsTerminated()
	if !obs.Returned || !obs.Term {
		obs.Hang = true
		atomic.AddInt32(&c12Leaked, 1)
	}
	// inner sources obey the contract: wait for them to return, then look for late handler calls
	ctx.mu.Lock()
	inners := append([]*c12Src(nil), ctx.inners...)
	ctx.mu.Unlock()
	obs.AllShut = true
	for _, s := range inners {
		if atomic.LoadInt32(&s.started) == 1 {
			if !s.IsTerminating() {
				obs.AllShut = false
				s.Shutdown(nil)
			}
			select {
			case <-s.done:
			case <-time.After(c12Watchdog):
			}
		}
	}
	time.Sleep(300 * time.Microsecond)
	obs.After = int(atomic.LoadInt32(&ctx.after))
	obs.Overlap = atomic.LoadInt32(&ctx.overlap) == 1
	if failNoShutdown {
		obs.AllShut = false
	}
	return obs
}

// ---------------------------------------------------------------- Coq terms

func coqNat(n int) string { return fmt.Sprintf("%d%%nat", n) }
func coqIev(e c12Ev) string {
	if e.Fail {
		return "IFail"
	}
	return fmt.Sprintf("(IBlock %s %s)", coqNat(e.B), coqBool(e.Ok))
}
func coqFev(e c12Ev) string {
	if e.Fail {
		return "Jn.FFail"
	}
	if e.Join {
		return fmt.Sprintf("(Jn.FJoin %s)", coqNat(e.B))
	}
	return fmt.Sprintf("(Jn.FBlock %s %s)", coqNat(e.B), coqBool(e.Ok))
}
func coqScript(s []c12Ev, f func(c12Ev) string) string {
	var xs []string
	for _, e := range s {
		xs = append(xs, f(e))
	}
	return coqList(xs)
}
func coqSupply(s [][]c12Ev) string {
	var xs []string
	for _, sc := range s {
		xs = append(xs, coqScript(sc, coqIev))
	}
	return coqList(xs)
}
func coqPairs(s []c12Ev) string {
	var xs []string
	for i, e := range s {
		_ = e
		xs = append(xs, fmt.Sprintf("(%s, %s)", coqNat(i+1), coqBool(e.Ok)))
	}
	return coqList(xs)
}
func coqInj(i c12Inj) string {
	switch i.Mode {
	case "point":
		return fmt.Sprintf("(InjPoint %s %s)", coqNat(i.Point), coqNat(i.N))
	case "handler":
		return fmt.Sprintf("(InjHandler %s)", coqNat(i.N))
	case "factory":
		return fmt.Sprintf("(InjFactory %s)", coqNat(i.N))
	case "idle":
		return "InjIdle"
	}
	return "InjRandom"
}
func coqLog(l []c12Lev) string {
	var xs []string
	for _, e := range l {
		switch e.K {
		case "P":
			xs = append(xs, fmt.Sprintf("EPoint %s", coqNat(e.A)))
		case "F":
			xs = append(xs, fmt.Sprintf("EFactory %s %s", coqNat(e.A), coqNat(e.B)))
		case "HB":
			xs = append(xs, fmt.Sprintf("EHBegin %s %s", coqNat(e.A), coqNat(e.B)))
		case "HE":
			xs = append(xs, fmt.Sprintf("EHEnd %s %s %s", coqNat(e.A), coqNat(e.B), coqBool(e.Ok)))
		case "D":
			xs = append(xs, fmt.Sprintf("EDown %s", coqNat(e.A)))
		case "R":
			xs = append(xs, "ERet")
		}
	}
	return coqList(xs)
}
func coqObs(o *c12Obs) string {
	return fmt.Sprintf("(mkObs %s %s %s %s %s %s %s)", coqLog(o.Log), coqBool(o.Returned), coqBool(o.Term),
		coqNat(o.After), coqBool(o.Overlap), coqBool(o.AllShut), coqBool(o.Hang || o.Panic != ""))
}
func coqCmds(cs []c12Cmd) string {
	var xs []string
	for _, c := range cs {
		switch c.Op {
		case "round":
			xs = append(xs, "CRound")
		case "deliver":
			xs = append(xs, fmt.Sprintf("CDeliver %s", coqNat(c.K)))
		case "shutdown":
			xs = append(xs, "CShutdown")
		case "arm":
			xs = append(xs, fmt.Sprintf("CArm %s %s", coqNat(c.Point), coqNat(c.N)))
		case "hold":
			xs = append(xs, "CHold")
		case "release":
			xs = append(xs, "CRelease")
		}
	}
	return coqList(xs)
}

// ---------------------------------------------------------------- exec

func c12Outcome(o *c12Obs) string {
	switch {
	case o.Hang:
		return "hang"
	case o.Panic != "":
		return "panic"
	case o.Overlap:
		return "overlap"
	case o.After > 0:
		return "late-call"
	case !o.AllShut:
		return "inner-alive"
	}
	return "ok"
}

func c12Exec(raw json.RawMessage) (*Case, error) {
	var in c12In
	if err := json.Unmarshal(raw, &in); err != nil {
		return nil, err
	}
	var obs *c12Obs
	var err error
	var term string
	if atomic.LoadInt32(&c12Leaked) > 64 {
		// too many hung runs already in this process: do not pile up goroutines, report the rest as hangs too
		obs = &c12Obs{Hang: true}
	}
	switch in.Kind {
	case "eternal":
		if obs == nil {
			obs = c12ExecEternal(&in)
		}
		term = fmt.Sprintf("KEternal %s %s %s", coqSupply(in.Supply), coqInj(in.Inj), coqObs(obs))
	case "joining":
		if obs == nil {
			obs = c12ExecJoining(&in)
		}
		term = fmt.Sprintf("KJoining %s %s %s %s %s %s", coqBool(in.LiveFirst), coqBool(in.FileAvail),
			coqScript(in.FScript, coqFev), coqScript(in.LScript, coqIev), coqInj(in.Inj), coqObs(obs))
	case "sub":
		if obs == nil {
			obs, err = c12ExecSub(&in)
		}
		if err == nil {
			term = fmt.Sprintf("KSub %s %s %s", coqPairs(in.Blocks), coqInj(in.Inj), coqObs(obs))
		}
	case "file":
		if obs == nil {
			obs, err = c12ExecFile(&in)
		}
		if err == nil {
			var fl []string
			n := 0
			for _, f := range in.Store {
				var xs []string
				for _, e := range f {
					n++
					xs = append(xs, fmt.Sprintf("(%s, %s)", coqNat(n), coqBool(e.Ok)))
				}
				fl = append(fl, coqList(xs))
			}
			term = fmt.Sprintf("KFile %s %s %s %s", coqList(fl), coqBool(in.Stop), coqInj(in.Inj), coqObs(obs))
		}
	case "mux":
		if obs == nil {
			obs = c12ExecMux(&in)
		}
		term = fmt.Sprintf("KMux %s %s %s %s", coqNat(in.NSlots), coqSupply(in.Supply), coqCmds(in.Cmds), coqObs(obs))
	case "mux_stress":
		if obs == nil {
			obs = c12ExecMuxStress(&in)
		}
		obs.Log = nil
		term = fmt.Sprintf("KStress %s", coqObs(obs))
	default:
		return nil, fmt.Errorf("unknown kind %q", in.Kind)
	}
	if err != nil {
		return nil, err
	}
	mode := in.Inj.Mode
	if in.Kind == "mux" {
		mode = "scenario"
		for _, c := range in.Cmds {
			if c.Op == "hold" {
				mode = "scenario-hold" // a handler call is parked while other goroutines move
			}
		}
	}
	if in.Kind == "mux_stress" {
		mode = "stress"
	}
	cls := fmt.Sprintf("%s/%s/%s", in.Kind, mode, c12Outcome(obs))
	if mode == "point" {
		cls = fmt.Sprintf("%s/point%d/%s", in.Kind, in.Inj.Point, c12Outcome(obs))
	}
	return &Case{Class: cls, Nontrivial: true, Key: string(raw), Obs: obs, Coq: term}, nil
}

// ---------------------------------------------------------------- inputs

func c12Blocks(from, n int, failAt int) []c12Ev {
	var out []c12Ev
	for i := 0; i < n; i++ {
		out = append(out, c12Ev{B: from + i, Ok: failAt != i+1})
	}
	return out
}

func c12Corpus() []any {
	var out []any
	add := func(in c12In) { out = append(out, in) }
	// ---- eternal: every schedule point x {1st, 2nd passage}, handler calls, factory calls, idle
	etSupplies := [][][]c12Ev{
		nil,
		{{{B: 1, Ok: true}, {B: 2, Ok: true}, {B: 3, Ok: false}}, {{B: 4, Ok: true}}},
		{{{B: 1, Ok: true}, {Fail: true}}, {{Fail: true}}, {{B: 2, Ok: true}, {B: 3, Ok: true}}},
		// reorgs: the last accepted block has an equal or lower height than an earlier one
		{{{B: 1, H: 5, Ok: true}, {B: 2, H: 6, Ok: true}, {B: 3, H: 6, Ok: true}, {Fail: true}}, {{B: 4, H: 7, Ok: true}, {B: 5, H: 5, Ok: true}}, {{B: 6, H: 6, Ok: true}}},
	}
	for _, sup := range etSupplies {
		for p := 0; p <= 4; p++ {
			for n := 1; n <= 2; n++ {
				add(c12In{Kind: "eternal", Supply: sup, Inj: c12Inj{Mode: "point", Point: p, N: n}})
			}
		}
		for n := 1; n <= 3; n++ {
			add(c12In{Kind: "eternal", Supply: sup, Inj: c12Inj{Mode: "handler", N: n}})
			add(c12In{Kind: "eternal", Supply: sup, Inj: c12Inj{Mode: "factory", N: n}})
		}
		add(c12In{Kind: "eternal", Supply: sup, Inj: c12Inj{Mode: "idle"}})
	}
	// ---- joining
	jn := []c12In{
		{LiveFirst: true, FileAvail: true, LScript: c12Blocks(1, 2, 0)},
		{LiveFirst: true, FileAvail: true, LScript: c12Blocks(1, 3, 2)},
		{FileAvail: true, FScript: append(c12Blocks(1, 2, 0), c12Ev{B: 3, Join: true}), LScript: c12Blocks(3, 2, 0)},
		{FileAvail: true, FScript: c12Blocks(1, 3, 2)},
		{FileAvail: true, FScript: []c12Ev{{B: 1, Ok: true}, {Fail: true}}},
		{FileAvail: true, FScript: []c12Ev{{B: 1, Join: true}}},
		{FileAvail: false},
	}
	for _, base := range jn {
		base.Kind = "joining"
		for p := 10; p <= 16; p++ {
			c := base
			c.Inj = c12Inj{Mode: "point", Point: p, N: 1}
			add(c)
		}
		for n := 1; n <= 3; n++ {
			c := base
			c.Inj = c12Inj{Mode: "handler", N: n}
			add(c)
		}
		c := base
		c.Inj = c12Inj{Mode: "factory", N: 1}
		add(c)
		c = base
		c.Inj = c12Inj{Mode: "factory", N: 2}
		add(c)
		c = base
		c.Inj = c12Inj{Mode: "idle"}
		add(c)
	}
	// ---- hub subscription
	for _, total := range []int{4, 6} {
		for _, fail := range []int{0, 3} {
			for n := 1; n <= total; n += 2 {
				add(c12In{Kind: "sub", Blocks: c12Blocks(1, total, fail), Inj: c12Inj{Mode: "handler", N: n}})
			}
			add(c12In{Kind: "sub", Blocks: c12Blocks(1, total, fail), Inj: c12Inj{Mode: "idle"}})
		}
	}
	// ---- file source
	for _, stop := range []bool{false, true} {
		for _, fail := range []int{0, 4} {
			st := [][]c12Ev{c12Blocks(1, 3, fail), c12Blocks(4, 2, fail-3)}
			for n := 1; n <= 5; n++ {
				add(c12In{Kind: "file", Store: st, Stop: stop, Inj: c12Inj{Mode: "handler", N: n}})
			}
			add(c12In{Kind: "file", Store: st, Stop: stop, Inj: c12Inj{Mode: "idle"}})
		}
	}
	add(c12In{Kind: "file", Store: nil, Inj: c12Inj{Mode: "idle"}})
	// ---- multiplexed: sequential scenarios
	sup := [][]c12Ev{c12Blocks(1, 2, 0), {{B: 3, Ok: true}, {Fail: true}}, c12Blocks(5, 2, 0), c12Blocks(7, 1, 0)}
	prefix := []c12Cmd{{Op: "round"}, {Op: "deliver", K: 0}, {Op: "deliver", K: 1}, {Op: "deliver", K: 1}}
	for _, pn := range [][2]int{{20, 3}, {21, 2}, {22, 2}, {23, 3}, {24, 3}, {22, 1}, {23, 1}, {23, 2}, {24, 1}, {24, 2}, {20, 1}, {20, 2}, {21, 1}} {
		cmds := append([]c12Cmd{{Op: "arm", Point: pn[0], N: pn[1]}}, prefix...)
		cmds = append(cmds, c12Cmd{Op: "round"}, c12Cmd{Op: "deliver", K: 2}, c12Cmd{Op: "round"})
		add(c12In{Kind: "mux", NSlots: 2, Supply: sup, Cmds: cmds})
	}
	for _, p := range []int{25, 26, 27} {
		for n := 1; n <= 2; n++ {
			add(c12In{Kind: "mux", NSlots: 2, Supply: sup, Cmds: []c12Cmd{{Op: "arm", Point: p, N: n}, {Op: "round"},
				{Op: "deliver", K: 0}, {Op: "deliver", K: 1}, {Op: "deliver", K: 0}, {Op: "round"}}})
		}
	}
	// handler failure: every inner source must be shut down
	add(c12In{Kind: "mux", NSlots: 3, Supply: [][]c12Ev{c12Blocks(1, 2, 2), c12Blocks(3, 2, 0), c12Blocks(5, 2, 0)},
		Cmds: []c12Cmd{{Op: "round"}, {Op: "deliver", K: 1}, {Op: "deliver", K: 0}, {Op: "deliver", K: 0}, {Op: "deliver", K: 2}, {Op: "round"}}})
	add(c12In{Kind: "mux", NSlots: 2, Supply: sup, Cmds: []c12Cmd{{Op: "round"}, {Op: "deliver", K: 0}, {Op: "shutdown"}, {Op: "deliver", K: 1}, {Op: "round"}}})
	add(c12In{Kind: "mux", NSlots: 2, Supply: sup, Cmds: []c12Cmd{{Op: "shutdown"}, {Op: "round"}}})
	add(c12In{Kind: "mux", NSlots: 1, Supply: nil, Cmds: nil})
	// ---- multiplexed: an inner source waits for handlerLock while the source is shut down (defect D1 of the hypothesis
	// audit: the wrapper called the handler after Terminated / after Run returned).  Source 0 is parked inside the
	// handler (hold), source 1 runs into handlerLock (deliver 1), then:
	d1 := [][]c12Ev{c12Blocks(1, 2, 0), c12Blocks(3, 2, 0), c12Blocks(5, 2, 0)}
	d1f := [][]c12Ev{c12Blocks(1, 2, 1), c12Blocks(3, 2, 0), c12Blocks(5, 2, 0)}
	hd := []c12Cmd{{Op: "round"}, {Op: "hold"}, {Op: "deliver", K: 0}, {Op: "deliver", K: 1}}
	mk := func(rest ...c12Cmd) []c12Cmd { return append(append([]c12Cmd(nil), hd...), rest...) }
	// complete external Shutdown, Run returns, then the call returns
	add(c12In{Kind: "mux", NSlots: 2, Supply: d1, Cmds: mk(c12Cmd{Op: "shutdown"}, c12Cmd{Op: "round"}, c12Cmd{Op: "release"})})
	// same, Run still parked when the call returns
	add(c12In{Kind: "mux", NSlots: 2, Supply: d1, Cmds: mk(c12Cmd{Op: "shutdown"}, c12Cmd{Op: "release"}, c12Cmd{Op: "round"})})
	// the handler FAILS on the parked call: its goroutine shuts the source down
	add(c12In{Kind: "mux", NSlots: 2, Supply: d1f, Cmds: mk(c12Cmd{Op: "release"}, c12Cmd{Op: "round"})})
	add(c12In{Kind: "mux", NSlots: 3, Supply: d1f, Cmds: mk(c12Cmd{Op: "deliver", K: 2}, c12Cmd{Op: "round"}, c12Cmd{Op: "release"}, c12Cmd{Op: "deliver", K: 2}, c12Cmd{Op: "round"})})
	// Shutdown from inside the parked call / at mux.handler_unlocked of the parked call / at mux.handler_locked of the waiting source
	add(c12In{Kind: "mux", NSlots: 2, Supply: d1, Cmds: append([]c12Cmd{{Op: "arm", Point: 27, N: 1}}, mk(c12Cmd{Op: "round"}, c12Cmd{Op: "release"})...)})
	add(c12In{Kind: "mux", NSlots: 2, Supply: d1, Cmds: append([]c12Cmd{{Op: "arm", Point: 26, N: 1}}, mk(c12Cmd{Op: "release"}, c12Cmd{Op: "round"})...)})
	add(c12In{Kind: "mux", NSlots: 2, Supply: d1, Cmds: append([]c12Cmd{{Op: "arm", Point: 25, N: 2}}, mk(c12Cmd{Op: "release"}, c12Cmd{Op: "round"})...)})
	// Shutdown started under sourcesLock (terminating channel closed, callback waiting for the lock): the parked call is
	// released there, the waiting source makes its test while the source is terminating and not yet terminated
	add(c12In{Kind: "mux", NSlots: 2, Supply: d1, Cmds: append([]c12Cmd{{Op: "arm", Point: 22, N: 2}}, mk(c12Cmd{Op: "round"}, c12Cmd{Op: "round"})...)})
	add(c12In{Kind: "mux", NSlots: 2, Supply: d1f, Cmds: append([]c12Cmd{{Op: "arm", Point: 22, N: 2}}, mk(c12Cmd{Op: "round"}, c12Cmd{Op: "round"})...)})
	add(c12In{Kind: "mux", NSlots: 3, Supply: [][]c12Ev{c12Blocks(1, 2, 0), c12Blocks(3, 2, 0), {{Fail: true}}, c12Blocks(7, 2, 0)},
		Cmds: []c12Cmd{{Op: "round"}, {Op: "deliver", K: 2}, {Op: "hold"}, {Op: "deliver", K: 0}, {Op: "deliver", K: 1}, {Op: "arm", Point: 23, N: 4}, {Op: "round"}, {Op: "round"}}})
	// no Shutdown: the waiting source makes its call once the lock is free (the repair must not drop it)
	add(c12In{Kind: "mux", NSlots: 2, Supply: d1, Cmds: mk(c12Cmd{Op: "release"}, c12Cmd{Op: "deliver", K: 1}, c12Cmd{Op: "deliver", K: 0}, c12Cmd{Op: "round"})})
	// the scenario ends with the call still parked (released by the finish), Shutdown during the reconnect of a failed source
	add(c12In{Kind: "mux", NSlots: 2, Supply: [][]c12Ev{c12Blocks(1, 2, 0), {{Fail: true}}, c12Blocks(5, 2, 0)},
		Cmds: []c12Cmd{{Op: "round"}, {Op: "deliver", K: 1}, {Op: "hold"}, {Op: "deliver", K: 0}, {Op: "arm", Point: 23, N: 1}, {Op: "round"}, {Op: "deliver", K: 2}}})
	add(c12In{Kind: "mux", NSlots: 0, Supply: nil, Cmds: []c12Cmd{{Op: "round"}, {Op: "round"}}})
	// ---- multiplexed: stress
	add(c12In{Kind: "mux_stress", NSlots: 3, Supply: [][]c12Ev{c12Blocks(1, 40, 0), c12Blocks(100, 40, 0), c12Blocks(200, 40, 0)}, Seed: 7, FailAt: 25})
	add(c12In{Kind: "mux_stress", NSlots: 2, Supply: [][]c12Ev{c12Blocks(1, 40, 0), c12Blocks(100, 40, 0)}, Seed: 9, Inj: c12Inj{DelayUs: 700}})
	// a 2 ms handler call during which Shutdown is called: the other sources queue up on handlerLock, Run returns meanwhile
	add(c12In{Kind: "mux_stress", NSlots: 3, Supply: [][]c12Ev{c12Blocks(1, 40, 0), c12Blocks(100, 40, 0), c12Blocks(200, 40, 0)}, Seed: 11, SlowAt: 5})
	add(c12In{Kind: "mux_stress", NSlots: 2, Supply: [][]c12Ev{c12Blocks(1, 40, 0), c12Blocks(100, 40, 0)}, Seed: 12, SlowAt: 9, FailAt: 9})
	return out
}

func c12RandScript(r *Rng, from, maxLen int, allowFail bool) []c12Ev {
	n := r.Intn(maxLen + 1)
	var out []c12Ev
	for i := 0; i < n; i++ {
		if allowFail && r.Chance(12) {
			out = append(out, c12Ev{Fail: true})
			break
		}
		out = append(out, c12Ev{B: from + i, Ok: !r.Chance(15)})
	}
	return out
}

func c12RandInj(r *Rng, points []int, maxN int) c12Inj {
	switch r.Intn(10) {
	case 0, 1, 2, 3:
		return c12Inj{Mode: "point", Point: points[r.Intn(len(points))], N: 1 + r.Intn(maxN)}
	case 4, 5:
		return c12Inj{Mode: "handler", N: 1 + r.Intn(5)}
	case 6:
		return c12Inj{Mode: "factory", N: 1 + r.Intn(maxN)}
	case 7:
		return c12Inj{Mode: "idle"}
	}
	return c12Inj{Mode: "random", DelayUs: r.Intn(1500)}
}

func c12Gen(r *Rng, i int, tier string) any {
	switch r.Intn(20) {
	case 0, 1, 2, 3, 4, 5:
		var sup [][]c12Ev
		ns := r.Intn(4)
		base := 1
		for k := 0; k < ns; k++ {
			sc := c12RandScript(r, base, 4, true)
			base += 5
			sup = append(sup, sc)
		}
		if r.Chance(50) {
			// fork-shaped heights: each block at the previous height +1, equal, or up to 2 lower
			h := 10
			for k := range sup {
				for j := range sup[k] {
					if sup[k][j].Fail {
						continue
					}
					switch r.Intn(4) {
					case 0, 1:
						h++
					case 2:
					default:
						h -= 1 + r.Intn(2)
					}
					sup[k][j].H = h
				}
			}
		}
		return c12In{Kind: "eternal", Supply: sup, Inj: c12RandInj(r, []int{0, 1, 2, 3, 4}, 3), Seed: r.U64() % 1000}
	case 6, 7, 8, 9, 10:
		in := c12In{Kind: "joining", LiveFirst: r.Chance(35), FileAvail: !r.Chance(10)}
		in.LScript = c12RandScript(r, 10, 4, true)
		fs := c12RandScript(r, 1, 4, true)
		if r.Chance(50) && (len(fs) == 0 || !fs[len(fs)-1].Fail) {
			fs = append(fs, c12Ev{B: 9, Join: true})
		}
		in.FScript = fs
		in.Inj = c12RandInj(r, []int{10, 11, 12, 13, 14, 15, 16}, 1)
		if in.Inj.Mode == "factory" {
			in.Inj.N = 1
		}
		return in
	case 11, 12:
		total := 4 + r.Intn(5)
		fail := 0
		if r.Chance(30) {
			fail = 1 + r.Intn(total)
		}
		inj := c12Inj{Mode: "handler", N: 1 + r.Intn(total)}
		switch r.Intn(4) {
		case 0:
			inj = c12Inj{Mode: "idle"}
		case 1:
			inj = c12Inj{Mode: "random", DelayUs: r.Intn(800)}
		}
		return c12In{Kind: "sub", Blocks: c12Blocks(1, total, fail), Inj: inj, Seed: r.U64() % 1000}
	case 13, 14:
		nf := r.Intn(4)
		var st [][]c12Ev
		total := 0
		for k := 0; k < nf; k++ {
			n := 1 + r.Intn(c12Bundle)
			st = append(st, c12Blocks(total+1, n, 0))
			total += n
		}
		if total > 0 && r.Chance(30) {
			f := r.Intn(total)
			cnt := 0
			for a := range st {
				for b := range st[a] {
					if cnt == f {
						st[a][b].Ok = false
					}
					cnt++
				}
			}
		}
		inj := c12Inj{Mode: "handler", N: 1 + r.Intn(total+1)}
		switch r.Intn(4) {
		case 0:
			inj = c12Inj{Mode: "idle"}
		case 1:
			inj = c12Inj{Mode: "random", DelayUs: r.Intn(3000)}
		}
		return c12In{Kind: "file", Store: st, Stop: r.Chance(40) && total > 0, Inj: inj}
	case 15, 16, 17:
		ns := r.Intn(4)
		var sup [][]c12Ev
		for k := 0; k < 2+r.Intn(5); k++ {
			sup = append(sup, c12RandScript(r, 1+10*k, 3, true))
		}
		var cmds []c12Cmd
		nc := r.Intn(12)
		for k := 0; k < nc; k++ {
			switch r.Intn(13) {
			case 0, 1, 2:
				cmds = append(cmds, c12Cmd{Op: "round"})
			case 3, 4, 5, 6, 7:
				cmds = append(cmds, c12Cmd{Op: "deliver", K: r.Intn(5)})
			case 8:
				cmds = append(cmds, c12Cmd{Op: "arm", Point: []int{20, 21, 22, 23, 24, 25, 26, 27}[r.Intn(8)], N: 1 + r.Intn(4)})
			case 10, 11:
				cmds = append(cmds, c12Cmd{Op: "hold"})
			case 12:
				cmds = append(cmds, c12Cmd{Op: "release"})
			case 9:
				if r.Chance(30) {
					cmds = append(cmds, c12Cmd{Op: "shutdown"})
				} else {
					cmds = append(cmds, c12Cmd{Op: "round"})
				}
			}
		}
		return c12In{Kind: "mux", NSlots: ns, Supply: sup, Cmds: cmds}
	default:
		ns := 1 + r.Intn(4)
		var sup [][]c12Ev
		for k := 0; k < ns+r.Intn(4); k++ {
			sc := c12Blocks(1+100*k, 10+r.Intn(30), 0)
			if r.Chance(30) {
				sc = append(sc[:r.Intn(len(sc))], c12Ev{Fail: true})
			}
			sup = append(sup, sc)
		}
		in := c12In{Kind: "mux_stress", NSlots: ns, Supply: sup, Seed: r.U64() % 100000}
		switch r.Intn(6) {
		case 0, 1, 2:
			in.FailAt = 1 + r.Intn(40)
		case 3, 4:
			in.Inj.DelayUs = r.Intn(2500)
		default:
			in.SlowAt = 1 + r.Intn(15)
		}
		return in
	}
}

func init() {
	props["C12"] = &Prop{Gen: c12Gen, Exec: c12Exec, Corpus: c12Corpus}
}
