package main

// C10: file source delivery is ordered, contiguous, complete under any preprocess timing.
// Real bstream.NewFileSource over an in-memory dstore with bundles written by the real dbin block
// writer; the relative timing of file opens / FileExists / preprocess calls is driven by per-call
// delays derived from the seed.  Shared with c11.go: block/bundle construction, the store wrapper,
// the recording handler, the watchdog and the error enum.

import (
	"bytes"
	"context"
	"encoding/json"
	"errors"
	"fmt"
	"io"
	"strconv"
	"strings"
	"sync"
	"sync/atomic"
	"time"

	"github.com/streamingfast/bstream"
	pbbstream "github.com/streamingfast/bstream/pb/sf/bstream/v1"
	"github.com/streamingfast/bstream/stream"
	"github.com/streamingfast/dbin"
	"github.com/streamingfast/dstore"
	"go.uber.org/zap"
	"google.golang.org/protobuf/proto"
	"google.golang.org/protobuf/types/known/anypb"
	"google.golang.org/protobuf/types/known/timestamppb"
)

// ---------------------------------------------------------------- blocks and bundles

type fsBlk struct {
	ID  uint64 `json:"id"`
	Num uint64 `json:"num"`
	Par uint64 `json:"par"`
}

type fsLayout struct {
	Bundle uint64    `json:"bundle"`
	Start  uint64    `json:"start"`
	Stop   uint64    `json:"stop"`
	Files  [][]fsBlk `json:"files"` // consecutive bundles from lowBoundary(start, bundle)
}

func (l *fsLayout) base0() uint64     { return l.Start - l.Start%l.Bundle }
func (l *fsLayout) base(i int) uint64 { return l.base0() + uint64(i)*l.Bundle }

func fsIDStr(id uint64) string {
	if id == 0 {
		return ""
	}
	return fmt.Sprintf("%08x", id)
}

func fsIDNum(s string) uint64 {
	if s == "" {
		return 0
	}
	v, err := strconv.ParseUint(s, 16, 64)
	if err != nil {
		return 1<<64 - 1
	}
	return v
}

func fsBlock(b fsBlk) *pbbstream.Block {
	pn := uint64(0)
	if b.Num > 0 {
		pn = b.Num - 1
	}
	return &pbbstream.Block{
		Id:        fsIDStr(b.ID),
		Number:    b.Num,
		ParentId:  fsIDStr(b.Par),
		ParentNum: pn,
		Timestamp: timestamppb.New(time.Unix(int64(1600000000+b.Num), 0)),
		LibNum:    pn,
		Payload: &anypb.Any{
			TypeUrl: "type.googleapis.com/verif.TestBlock",
			Value:   []byte(fmt.Sprintf("payload of block %d/%d with some padding ................", b.ID, b.Num)),
		},
	}
}

func fsBundleBytes(blocks []fsBlk) []byte {
	buf := &bytes.Buffer{}
	w, err := bstream.NewDBinBlockWriter(buf)
	if err != nil {
		panic(err)
	}
	for _, b := range blocks {
		if err := w.Write(fsBlock(b)); err != nil {
			panic(err)
		}
	}
	if len(blocks) == 0 {
		// the block writer emits the dbin header with the first block only: a bundle without
		// blocks is a header-only file
		if err := dbin.NewWriter(buf).WriteHeader("type.googleapis.com/verif.TestBlock"); err != nil {
			panic(err)
		}
	}
	return buf.Bytes()
}

func fsFileName(base uint64) string { return fmt.Sprintf("%010d", base) }

// the preprocessor's result as a function of the block; Check/C10_Check.v uses the same function
func fsTag(id, num uint64) uint64 { return 3*id + num }

// ---------------------------------------------------------------- store wrapper

var (
	errInjExists  = errors.New("injected: file existence fault")
	errInjOpen    = errors.New("injected: open fault")
	errInjRead    = errors.New("injected: storage read fault")
	errInjPre     = errors.New("injected: preprocessor fault")
	errInjHandler = errors.New("injected: handler fault")
)

// fsStore is a dstore.Store whose OpenObject / FileExists calls are delayed and may fail.
type fsStore struct {
	*dstore.MockStore
	mu         sync.Mutex
	content    map[string][]byte
	openDelay  func(name string) time.Duration
	existDelay func(name string, call int) time.Duration
	existFail  func(name string, call int) bool // call = how many times FileExists(name) was called before
	openFail   func(name string) bool
	wrapReader func(name string, r io.Reader) io.ReadCloser
	existCalls map[string]int
	opens      int64
}

func newFsStore() *fsStore {
	return &fsStore{MockStore: dstore.NewMockStore(nil), content: map[string][]byte{}, existCalls: map[string]int{}}
}

func (s *fsStore) set(name string, b []byte) { s.content[name] = b }

func (s *fsStore) FileExists(ctx context.Context, name string) (bool, error) {
	s.mu.Lock()
	call := s.existCalls[name]
	s.existCalls[name] = call + 1
	s.mu.Unlock()
	if s.existDelay != nil {
		time.Sleep(s.existDelay(name, call))
	}
	if s.existFail != nil && s.existFail(name, call) {
		return false, errInjExists
	}
	_, ok := s.content[name]
	return ok, nil
}

func (s *fsStore) OpenObject(ctx context.Context, name string) (io.ReadCloser, error) {
	atomic.AddInt64(&s.opens, 1)
	if s.openDelay != nil {
		time.Sleep(s.openDelay(name))
	}
	if s.openFail != nil && s.openFail(name) {
		return nil, errInjOpen
	}
	b, ok := s.content[name]
	if !ok {
		return nil, dstore.ErrNotFound
	}
	if s.wrapReader != nil {
		return s.wrapReader(name, bytes.NewReader(b)), nil
	}
	return io.NopCloser(bytes.NewReader(b)), nil
}

func (s *fsStore) ObjectPath(base string) string { return base }

// ---------------------------------------------------------------- observation

type fsCall struct {
	ID  uint64 `json:"id"`
	Num uint64 `json:"num"`
	Par uint64 `json:"par"`
	Tag uint64 `json:"tag"`
}

type fsObs struct {
	Calls       []fsCall `json:"calls"`
	Err         int      `json:"err"` // 0 nil 1 stop 2 non-sequential 3 other 4 exists 5 open 6 preprocessor 7 handler
	Returned    bool     `json:"returned"`
	Forced      bool     `json:"forced"`       // the harness shut the source down because it had gone quiet (tailing)
	LateCalls   int      `json:"late_calls"`   // handler calls that began after Run had returned
	ObjMismatch int      `json:"obj_mismatch"` // calls whose object's cursor does not describe the block
	Panic       string   `json:"panic,omitempty"`
}

func fsErrClass(err error) int {
	switch {
	case err == nil:
		return 0
	case errors.Is(err, bstream.ErrStopBlockReached), errors.Is(err, stream.ErrStopBlockReached):
		return 1
	case errors.Is(err, errInjExists):
		return 4
	case errors.Is(err, errInjOpen):
		return 5
	case errors.Is(err, errInjPre):
		return 6
	case errors.Is(err, errInjHandler):
		return 7
	case strings.Contains(err.Error(), "non-sequential blocks"):
		return 2
	default:
		return 3
	}
}

// recorder is the handler given to the source under test.
type recorder struct {
	mu        sync.Mutex
	calls     []fsCall
	returned  int32
	late      int
	mismatch  int
	lastCall  int64 // unix nano of the last call (quiet timer)
	failAt    int   // index of the call that fails (-1 never)
	onCall    func(n int)
	callDelay func(n int) time.Duration
	// content: the block handed to the handler must be the STORED block in every field (payload, timestamp, LIB and
	// parent numbers), not only in (id, number, parent id): "hands the handler the stored blocks" (W1 audit; C10 only,
	// the bundles of C11 may be damaged on purpose)
	content bool
}

func (r *recorder) ProcessBlock(blk *pbbstream.Block, obj interface{}) error {
	r.mu.Lock()
	n := len(r.calls)
	if atomic.LoadInt32(&r.returned) != 0 {
		r.late++
	}
	c := fsCall{ID: fsIDNum(blk.Id), Num: blk.Number, Par: fsIDNum(blk.ParentId), Tag: 1<<64 - 1}
	if w, ok := obj.(bstream.ObjectWrapper); ok {
		if t, ok := w.WrappedObject().(uint64); ok {
			c.Tag = t
		} else if w.WrappedObject() == nil {
			c.Tag = 1<<64 - 2
		}
	}
	if cu, ok := obj.(bstream.Cursorable); ok {
		cur := cu.Cursor()
		if cur == nil || cur.Block.ID() != blk.Id || cur.Block.Num() != blk.Number {
			r.mismatch++
		}
	} else {
		r.mismatch++
	}
	if r.content && !proto.Equal(blk, fsBlock(fsBlk{ID: c.ID, Num: c.Num, Par: c.Par})) {
		r.mismatch++
	}
	r.calls = append(r.calls, c)
	atomic.StoreInt64(&r.lastCall, time.Now().UnixNano())
	r.mu.Unlock()
	if r.callDelay != nil {
		time.Sleep(r.callDelay(n))
	}
	if r.onCall != nil {
		r.onCall(n)
	}
	if r.failAt == n {
		return errInjHandler
	}
	return nil
}

// runWatched runs src.Run() under a watchdog.  quiet > 0: when Run has not returned and the
// handler has not been called for `quiet`, the source is considered to be tailing and is shut down
// (Forced).  A Run that has not returned `hang` after that / after the start is a hang.
func runWatched(src bstream.Source, rec *recorder, quiet, hang time.Duration) (obs *fsObs) {
	obs = &fsObs{}
	done := make(chan struct{})
	atomic.StoreInt64(&rec.lastCall, time.Now().UnixNano())
	go func() {
		defer func() {
			if p := recover(); p != nil {
				obs.Panic = fmt.Sprint(p)
			}
			close(done)
		}()
		src.Run()
	}()
	start := time.Now()
	tick := time.NewTicker(5 * time.Millisecond)
	defer tick.Stop()
	forcedAt := time.Time{}
loop:
	for {
		select {
		case <-done:
			obs.Returned = true
			break loop
		case <-tick.C:
			now := time.Now()
			if !forcedAt.IsZero() {
				if now.Sub(forcedAt) > hang {
					break loop
				}
				continue
			}
			last := time.Unix(0, atomic.LoadInt64(&rec.lastCall))
			if src.IsTerminating() {
				// the source is shut down (fault, stop, outside Shutdown): Run must return soon
				forcedAt = now
				continue
			}
			if quiet > 0 && now.Sub(last) > quiet {
				obs.Forced = true
				forcedAt = now
				go src.Shutdown(nil)
				continue
			}
			if now.Sub(start) > 20*time.Second {
				break loop
			}
		}
	}
	atomic.StoreInt32(&rec.returned, 1)
	if !obs.Returned {
		go src.Shutdown(nil) // let the goroutines go
	}
	time.Sleep(2 * time.Millisecond) // a handler call after return would show up here
	rec.mu.Lock()
	obs.Calls = append([]fsCall(nil), rec.calls...)
	obs.LateCalls = rec.late
	obs.ObjMismatch = rec.mismatch
	rec.mu.Unlock()
	if obs.Returned {
		obs.Err = fsErrClass(src.Err())
	} else {
		obs.Err = fsErrClass(src.Err())
	}
	if obs.Panic != "" {
		obs.Returned = false
	}
	return obs
}

// number of stored blocks at or above the start block and not below their bundle base, and
// whether the bundles that exist end before the stop block is reached (the source then tails)
func fsEligible(l *fsLayout) (n int, tails bool) {
	for i, f := range l.Files {
		for _, b := range f {
			if b.Num >= l.Start && b.Num >= l.base(i) {
				n++
			}
		}
	}
	return n, l.Stop == 0 || l.base(len(l.Files)) <= l.Stop
}

// runRetry guards the quiet timer against a starved test process: a run that was shut down by
// the quiet timer although the source should not have gone quiet yet (no tailing expected, or not
// everything delivered) is repeated, with a quiet period of one second, at most twice; a genuine
// stall shows up every time.
func runRetry(l *fsLayout, attempt func(quiet time.Duration) *fsObs) *fsObs {
	n, tails := fsEligible(l)
	obs := attempt(120 * time.Millisecond)
	for try := 0; try < 2 && obs.Forced && obs.Returned && (!tails || len(obs.Calls) < n); try++ {
		obs = attempt(time.Second)
	}
	if !obs.Returned && obs.Panic == "" {
		// "Run did not return within the watchdog" is only reported when it repeats under a watchdog that a
		// starved test process cannot plausibly miss (the first one is 2 s; the machine may be oversubscribed)
		fsHangWatch = 20 * time.Second
		again := attempt(time.Second)
		fsHangWatch = 2 * time.Second
		if again.Returned {
			obs = again
		}
	}
	return obs
}

// fsHangWatch: how long Run may take to return once the source is terminating
var fsHangWatch = 2 * time.Second

// ---------------------------------------------------------------- Coq terms

func coqBlk(id, num, par uint64) string { return fmt.Sprintf("(mkBlk %d %d %d)", id, num, par) }

func coqLayout(l *fsLayout) string {
	files := make([]string, len(l.Files))
	for i, f := range l.Files {
		bs := make([]string, len(f))
		for j, b := range f {
			bs[j] = coqBlk(b.ID, b.Num, b.Par)
		}
		files[i] = coqList(bs)
	}
	return fmt.Sprintf("(mkLayout %s %d %d %d)", coqList(files), l.Start, l.Bundle, l.Stop)
}

func coqCalls(cs []fsCall) string {
	items := make([]string, len(cs))
	for i, c := range cs {
		items[i] = fmt.Sprintf("(%s, %d)", coqBlk(c.ID, c.Num, c.Par), c.Tag)
	}
	return coqList(items)
}

// ---------------------------------------------------------------- layout generator

type fsGenOpts struct {
	maxBundle   int
	maxFiles    int
	breakPct    int // chance of a parent-link break somewhere
	noStopPct   int // chance of no stop block (the source tails; the harness shuts it down)
	fixedBundle uint64
	cutPct      int // chance that a bundle followed by another one is cut exactly on a message boundary
}

// fsGenLayout draws a layout: bundle size, a start anywhere in the first bundle (also on a missing
// number), consecutive bundles with skipped numbers, sometimes a legacy leading block (the last
// block of the previous bundle repeated below the bundle base), sometimes empty bundles, a stop
// block anywhere (before the start, inside any bundle, on a missing number, beyond the last bundle).
func fsGenLayout(r *Rng, o fsGenOpts) *fsLayout {
	l := &fsLayout{}
	l.Bundle = uint64(1 + r.Intn(o.maxBundle))
	if o.fixedBundle != 0 {
		l.Bundle = o.fixedBundle
	}
	base0 := uint64(r.Intn(4)) * l.Bundle
	if r.Chance(10) {
		base0 = uint64(r.Intn(1000)) * l.Bundle
	}
	l.Start = base0 + uint64(r.Intn(int(l.Bundle)))
	nfiles := 1 + r.Intn(o.maxFiles)
	skipPct := []int{0, 0, 15, 40}[r.Intn(4)]
	nextID := uint64(1 + r.Intn(5))
	var prev *fsBlk
	idOf := func() uint64 {
		nextID += uint64(1 + r.Intn(3))
		return nextID
	}
	breakAt := -1
	total := 0
	if r.Chance(o.breakPct) {
		breakAt = r.Intn(int(l.Bundle)*nfiles + 1)
	}
	for i := 0; i < nfiles; i++ {
		base := base0 + uint64(i)*l.Bundle
		var f []fsBlk
		if prev != nil && r.Chance(25) {
			f = append(f, *prev) // legacy leading block, below the base
		} else if prev == nil && base > 0 && r.Chance(15) {
			f = append(f, fsBlk{ID: idOf(), Num: base - 1, Par: 0})
		}
		if !r.Chance(6) { // else: an empty bundle
			for n := base; n < base+l.Bundle; n++ {
				if n == 0 && r.Chance(50) {
					continue
				}
				if r.Chance(skipPct) {
					continue
				}
				b := fsBlk{ID: idOf(), Num: n}
				if prev != nil {
					b.Par = prev.ID
				} else if r.Chance(50) {
					b.Par = uint64(1 + r.Intn(3))
				}
				if total == breakAt {
					b.Par = b.Par + 100000 + uint64(r.Intn(5))
				}
				total++
				f = append(f, b)
				bb := b
				prev = &bb
			}
		}
		l.Files = append(l.Files, f)
	}
	end := base0 + uint64(nfiles)*l.Bundle
	switch {
	case r.Chance(o.noStopPct):
		l.Stop = 0
	case r.Chance(8):
		l.Stop = end + uint64(r.Intn(int(l.Bundle)+1)) // not reached with the bundles that exist
	case r.Chance(8) && l.Start > 0:
		l.Stop = uint64(1 + r.Intn(int(l.Start))) // before the start block
	default:
		l.Stop = l.Start + uint64(r.Intn(int(end-l.Start)))
		if l.Stop == 0 {
			l.Stop = 1
		}
	}
	if o.cutPct > 0 && nfiles > 1 && r.Chance(o.cutPct) {
		// a truncated bundle whose cut falls exactly between two messages reads as a clean, shorter file:
		// only the parent link of the next bundle's first block can tell
		i := r.Intn(nfiles - 1)
		if n := len(l.Files[i]); n > 0 {
			l.Files[i] = l.Files[i][:r.Intn(n)]
		}
	}
	return l
}

// per-call delay tables derived from the seed
type fsDelays struct {
	Seed    uint64 `json:"seed"`
	Profile int    `json:"profile"` // 0 none 1 random small 2 first block of each file slowest 3 slow opens 4 slow handler 5 mixed heavy
}

func (d fsDelays) rnd(key uint64, mod int) int {
	z := (d.Seed + key*0x9E3779B97F4A7C15) * 0xBF58476D1CE4E5B9
	z ^= z >> 29
	z *= 0x94D049BB133111EB
	z ^= z >> 32
	return int(z % uint64(mod))
}

func (d fsDelays) pre(id, num uint64, firstOfFile bool) time.Duration {
	switch d.Profile {
	case 0, 3, 4:
		return 0
	case 1:
		return time.Duration(d.rnd(id*7+num, 400)) * time.Microsecond
	case 2:
		if firstOfFile {
			return 3 * time.Millisecond
		}
		return time.Duration(d.rnd(id, 100)) * time.Microsecond
	default:
		if d.rnd(id, 4) == 0 {
			return time.Duration(500+d.rnd(id+1, 2500)) * time.Microsecond
		}
		return time.Duration(d.rnd(id+2, 200)) * time.Microsecond
	}
}

func (d fsDelays) open(base uint64) time.Duration {
	switch d.Profile {
	case 3:
		return time.Duration(1000+d.rnd(base+11, 4000)) * time.Microsecond
	case 5:
		return time.Duration(d.rnd(base+13, 3000)) * time.Microsecond
	case 1:
		return time.Duration(d.rnd(base+17, 300)) * time.Microsecond
	}
	return 0
}

func (d fsDelays) exists(base uint64) time.Duration {
	if d.Profile == 5 || d.Profile == 3 {
		return time.Duration(d.rnd(base+19, 1000)) * time.Microsecond
	}
	return 0
}

func (d fsDelays) handler(n int) time.Duration {
	if d.Profile == 4 {
		return time.Duration(d.rnd(uint64(n)+23, 600)) * time.Microsecond
	}
	return 0
}

// ---------------------------------------------------------------- C10 proper

type c10Input struct {
	Layout  fsLayout `json:"layout"`
	Threads int      `json:"threads"`
	NoPre   bool     `json:"nopre,omitempty"` // no preprocessor configured at all
	// a block index provider whose index covers nothing is configured: the source drops it on its first lookup and
	// must behave exactly like a source without provider (continuity check included)
	UselessIndex bool `json:"useless_index,omitempty"`
	Delays  fsDelays `json:"delays"`
	// outside Shutdown(nil): -1 never; k >= 0: right after the k-th handler call has begun (from
	// another goroutine, after ShutDelayUs)
	ShutAfter   int `json:"shut_after"`
	ShutDelayUs int `json:"shut_delay_us"`
}

func fsBuildStore(l *fsLayout, d fsDelays) (*fsStore, map[uint64]bool) {
	st := newFsStore()
	firsts := map[uint64]bool{}
	for i, f := range l.Files {
		st.set(fsFileName(l.base(i)), fsBundleBytes(f))
		for _, b := range f {
			if b.Num >= l.Start && b.Num >= l.base(i) {
				firsts[b.ID] = true
				break
			}
		}
	}
	st.openDelay = func(name string) time.Duration {
		n, _ := strconv.ParseUint(name, 10, 64)
		return d.open(n)
	}
	st.existDelay = func(name string, call int) time.Duration {
		n, _ := strconv.ParseUint(name, 10, 64)
		return d.exists(n)
	}
	return st, firsts
}

func c10Gen(r *Rng, i int, tier string) any {
	in := c10Input{ShutAfter: -1}
	in.Layout = *fsGenLayout(r, fsGenOpts{maxBundle: 20, maxFiles: 4, breakPct: 18, noStopPct: 12, cutPct: 8})
	in.Threads = r.Intn(9)
	if r.Chance(5) {
		in.NoPre = true
	}
	in.Delays = fsDelays{Seed: r.U64(), Profile: []int{0, 1, 1, 2, 3, 4, 5, 5}[r.Intn(8)]}
	if r.Chance(25) {
		n := 0
		for _, f := range in.Layout.Files {
			n += len(f)
		}
		in.ShutAfter = r.Intn(n + 1)
		in.ShutDelayUs = []int{0, 0, 50, 300, 1500}[r.Intn(5)]
	}
	in.UselessIndex = r.Chance(12)
	if r.Chance(6) {
		c10Backwards(r, &in.Layout)
	}
	return in
}

// c10Backwards (Y1, W1-C10-1): a malformed bundle, one stored block whose number goes BACKWARDS (below the start
// block after delivery could have begun, below the bundle base without being the leading block, or simply out of
// order).  The property's quantifier does not describe such bundles; the library filters them per block and the
// reference model does the same: these layouts are compared by the correspondence and by c10_check, the suffix
// clause c10_suffix_y1 exempts them (mono_layout = false).
func c10Backwards(r *Rng, l *fsLayout) {
	var cand []int
	for i, f := range l.Files {
		if len(f) >= 2 {
			cand = append(cand, i)
		}
	}
	if len(cand) == 0 {
		return
	}
	i := cand[r.Intn(len(cand))]
	f := l.Files[i]
	j := 1 + r.Intn(len(f)-1) // inserted in front of f[j]: never the leading block
	prev := f[j-1]
	if prev.Num == 0 {
		return
	}
	low := prev.Num - 1
	if d := uint64(r.Intn(4)); d < low {
		low -= d
	}
	var maxID uint64
	for _, g := range l.Files {
		for _, b := range g {
			if b.ID > maxID {
				maxID = b.ID
			}
		}
	}
	nb := fsBlk{ID: maxID + 1 + uint64(r.Intn(3)), Num: low, Par: prev.ID}
	if r.Chance(50) {
		nb.Par = prev.Par // a sibling of the previous block
	}
	out := append([]fsBlk{}, f[:j]...)
	out = append(out, nb)
	out = append(out, f[j:]...)
	l.Files[i] = out
}

// c10NoIndex is a block index provider without any index file
type c10NoIndex struct{}

func (c10NoIndex) BlocksInRange(baseBlockNum, bundleSize uint64) ([]uint64, error) {
	return nil, fmt.Errorf("no index covers block %d", baseBlockNum)
}

func c10Exec(raw json.RawMessage) (*Case, error) {
	var in c10Input
	if err := json.Unmarshal(raw, &in); err != nil {
		return nil, err
	}
	l := &in.Layout
	if l.Bundle == 0 {
		return nil, fmt.Errorf("bundle size 0")
	}
	var fired int32
	attempt := func(quiet time.Duration) *fsObs {
		atomic.StoreInt32(&fired, 0)
		st, firsts := fsBuildStore(l, in.Delays)
		rec := &recorder{failAt: -1, content: true}
		rec.callDelay = in.Delays.handler
		pre := bstream.PreprocessFunc(func(blk *pbbstream.Block) (interface{}, error) {
			id := fsIDNum(blk.Id)
			if dl := in.Delays.pre(id, blk.Number, firsts[id]); dl > 0 {
				time.Sleep(dl)
			}
			return fsTag(id, blk.Number), nil
		})
		opts := []bstream.FileSourceOption{bstream.FileSourceWithBundleSize(l.Bundle)}
		if l.Stop != 0 {
			opts = append(opts, bstream.FileSourceWithStopBlock(l.Stop))
		}
		if !in.NoPre {
			opts = append(opts, bstream.FileSourceWithConcurrentPreprocess(pre, in.Threads))
		}
		if in.UselessIndex {
			opts = append(opts, bstream.FileSourceWithBlockIndexProvider(c10NoIndex{}))
		}
		fs := bstream.NewFileSource(st, l.Start, rec, zap.NewNop(), opts...)
		if in.ShutAfter >= 0 {
			var once sync.Once
			rec.onCall = func(n int) {
				if n >= in.ShutAfter {
					once.Do(func() {
						go func() {
							time.Sleep(time.Duration(in.ShutDelayUs) * time.Microsecond)
							atomic.StoreInt32(&fired, 1)
							fs.Shutdown(nil)
						}()
					})
				}
			}
		}
		return runWatched(fs, rec, quiet, fsHangWatch)
	}
	obs := runRetry(l, attempt)

	ext := atomic.LoadInt32(&fired) != 0
	cs := &Case{Obs: obs}
	hung := !obs.Returned
	tagKind := 0 // 0: preprocessor configured; 1: none (objects carry nil)
	if in.NoPre {
		tagKind = 1
	}
	cs.Coq = fmt.Sprintf("C10Case %s %d %d %s %s %s %d %s %s", coqLayout(l), in.Threads, tagKind,
		coqBool(ext), coqBool(obs.Forced), coqCalls(obs.Calls), obs.Err, coqBool(hung),
		coqBool(obs.LateCalls > 0 || obs.ObjMismatch > 0))
	shape := "run"
	if ext {
		shape = "shutdown"
	}
	if obs.Forced {
		shape += "+tail"
	}
	cs.Class = fmt.Sprintf("%s/err%d/t%d/p%d", shape, obs.Err, minInt(in.Threads, 3), in.Delays.Profile)
	if in.UselessIndex {
		cs.Class += "/useless-index"
	}
	if hung {
		cs.Class += "/hang"
	}
	if !fsMonotone(l) {
		cs.Class += "/backwards" // stored numbers go backwards: exempt from c10_suffix_y1, compared by the correspondence
	}
	cs.Nontrivial = len(obs.Calls) > 0
	cs.Key = string(raw)
	return cs, nil
}

// fsMonotone: the stored numbers never go backwards over the concatenation of the bundle files (mono_layout)
func fsMonotone(l *fsLayout) bool {
	var last uint64
	for _, f := range l.Files {
		for _, b := range f {
			if b.Num < last {
				return false
			}
			last = b.Num
		}
	}
	return true
}

func minInt(a, b int) int {
	if a < b {
		return a
	}
	return b
}

func c10Corpus() []any {
	chain := func(from, to uint64) []fsBlk {
		var out []fsBlk
		for n := from; n <= to; n++ {
			out = append(out, fsBlk{ID: n * 2, Num: n, Par: (n - 1) * 2})
		}
		return out
	}
	return []any{
		// the repository's own test shape: two files, 2 threads
		c10Input{Layout: fsLayout{Bundle: 100, Start: 1, Stop: 104, Files: [][]fsBlk{{{2, 1, 0}, {4, 2, 2}}, {{206, 103, 4}, {208, 104, 206}}}}, Threads: 2, ShutAfter: -1},
		// start mid-file on a missing number, legacy leading block, stop in the second bundle
		c10Input{Layout: fsLayout{Bundle: 5, Start: 2, Stop: 7, Files: [][]fsBlk{chain(1, 4), append([]fsBlk{{8, 4, 6}}, fsBlk{10, 5, 8}, fsBlk{14, 7, 10}, fsBlk{18, 9, 14})}}, Threads: 0, Delays: fsDelays{Seed: 7, Profile: 2}, ShutAfter: -1},
		// parent-link break across a file boundary
		c10Input{Layout: fsLayout{Bundle: 3, Start: 3, Stop: 8, Files: [][]fsBlk{chain(3, 5), {{12, 6, 999}, {14, 7, 12}, {16, 8, 14}}}}, Threads: 3, Delays: fsDelays{Seed: 1, Profile: 5}, ShutAfter: -1},
		// the same with a block index provider whose index covers nothing (finding C10-continuity-after-index-dropped)
		c10Input{Layout: fsLayout{Bundle: 3, Start: 3, Stop: 8, Files: [][]fsBlk{chain(3, 5), {{12, 6, 999}, {14, 7, 12}, {16, 8, 14}}}}, Threads: 3, Delays: fsDelays{Seed: 1, Profile: 5}, ShutAfter: -1, UselessIndex: true},
		// ... and a break inside a file
		c10Input{Layout: fsLayout{Bundle: 10, Start: 1, Stop: 6, Files: [][]fsBlk{{{2, 1, 0}, {4, 2, 2}, {6, 3, 999}, {8, 4, 6}, {10, 5, 8}, {12, 6, 10}}}}, Threads: 2, Delays: fsDelays{Seed: 2, Profile: 1}, ShutAfter: -1, UselessIndex: true},
		// no stop block: the source tails, the harness shuts it down
		c10Input{Layout: fsLayout{Bundle: 4, Start: 0, Stop: 0, Files: [][]fsBlk{chain(1, 3), chain(4, 7)}}, Threads: 8, Delays: fsDelays{Seed: 3, Profile: 1}, ShutAfter: -1},
		// W1-C10-1a: a lower-numbered stored block (3b) after delivery has begun; start 4: filtered, no error
		c10Input{Layout: fsLayout{Bundle: 10, Start: 4, Stop: 6, Files: [][]fsBlk{{{1, 1, 0}, {2, 2, 1}, {5, 5, 2}, {33, 3, 2}, {6, 6, 5}}}}, Threads: 2, ShutAfter: -1},
		// ... the same file from start 1: 1 2 5, then the out-of-sequence error in front of 3b
		c10Input{Layout: fsLayout{Bundle: 10, Start: 1, Stop: 6, Files: [][]fsBlk{{{1, 1, 0}, {2, 2, 1}, {5, 5, 2}, {33, 3, 2}, {6, 6, 5}}}}, Threads: 2, ShutAfter: -1},
		// W1-C10-1b: a block below the bundle base that is NOT leading
		c10Input{Layout: fsLayout{Bundle: 100, Start: 100, Stop: 102, Files: [][]fsBlk{{{100, 100, 99}, {101, 101, 100}, {990, 99, 101}, {102, 102, 101}}}}, Threads: 2, ShutAfter: -1},
		// outside Shutdown during the third delivery
		c10Input{Layout: fsLayout{Bundle: 10, Start: 11, Stop: 29, Files: [][]fsBlk{chain(10, 19), chain(20, 29)}}, Threads: 2, Delays: fsDelays{Seed: 5, Profile: 4}, ShutAfter: 2, ShutDelayUs: 50},
	}
}

func init() {
	props["C10"] = &Prop{Gen: c10Gen, Exec: c10Exec, Corpus: c10Corpus}
}
