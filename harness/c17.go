package main

import (
	"encoding/json"
	"errors"
	"fmt"
	"reflect"
	"strings"
	"time"

	"github.com/streamingfast/bstream"
	"github.com/streamingfast/bstream/forkable"
	pbbstream "github.com/streamingfast/bstream/pb/sf/bstream/v1"
	"google.golang.org/protobuf/proto"
	"google.golang.org/protobuf/types/known/anypb"
	"google.golang.org/protobuf/types/known/timestamppb"
)

// C17: gates forward a suffix of their input.  One case = one gate object fed one sequence of
// (block, step, block age) events; the observation is, per call, whether the wrapped handler was
// called with the very same block/object, what kind of value came back, and the trip count.
//
// W3 (conclusion / projection audit, notes_proof_W3/notes_C17.md): "the very same block/object" and
// "unchanged" are now the whole block message and the whole ForkableObject (snapshot comparison at
// the handler call, after the call and after the run), the handler's error is compared by identity
// per call, the trip function must run before the block is handed on, the wall-clock kinds are
// driven up to the threshold itself, ids close to the target / nil obj / blocks without timestamp /
// 300 held blocks are generated.

type c17Ev struct {
	ID    string `json:"id"`
	Num   uint64 `json:"num"`
	Step  int    `json:"step"`   // step of the ForkableObject passed as obj
	AgoMs int64  `json:"ago_ms"` // block time = clock - ago
}

type c17Input struct {
	Kind     string  `json:"kind"` // num id irrnum irrid realtime tripper timegator numgator minfilter
	First    uint64  `json:"first"`
	TNum     uint64  `json:"tnum"`
	TID      string  `json:"tid"`
	GateType int     `json:"gate_type"` // 0 inclusive, anything else exclusive (gators: exclusive flag)
	MaxHold  *int    `json:"max_hold"`  // nil = leave the constructor's default
	ThrMs    int64   `json:"thr_ms"`    // timeToRealtime / threshold
	HFlags   []bool  `json:"hflags"`    // k-th handler call fails
	Events   []c17Ev `json:"events"`
	// W3: what is passed as obj with the k-th event: 0 / missing = a *ForkableObject carrying Step, 1 = nil,
	// 2 = a value that is not a ForkableObject (kinds that do not look at the step only: the
	// irreversible gates type-assert obj)
	ObjKinds []int `json:"obj_kinds,omitempty"`
	// W3: the k-th block carries no timestamp (kinds that do not read the block time only)
	NoTS []bool `json:"no_ts,omitempty"`
}

func (in *c17Input) objKind(i int) int {
	if i < len(in.ObjKinds) {
		return in.ObjKinds[i]
	}
	return 0
}
func (in *c17Input) noTS(i int) bool { return i < len(in.NoTS) && in.NoTS[i] }

type c17Obs struct {
	Calls  [][3]int `json:"calls"` // f, r, t per call
	DefMax int      `json:"defmax"`
	Panic  string   `json:"panic,omitempty"`
	Why    []string `json:"why,omitempty"` // W3: for the replay reader: why a call was recorded as f = 2 / t >= 10
}

const c17Zero64 = "0000000000000000000000000000000000000000000000000000000000000000"

// wall-clock driven kinds (RealtimeGate, TimeThresholdGator read time.Now themselves).  W3: the block of
// call i is stamped `now - age` immediately before call i, so the gate measures age + (the few
// microseconds until it reads the clock): an age >= threshold is NOT real time whatever the delay
// (exact, margin 0); an age below the threshold is real time unless the process stalls for
// threshold - age between two adjacent statements, hence the margin on that side only.
// (Before W3: one clock reading per case and 60 s on both sides; a comparison that was off by
// less than a minute, e.g. on a rounded delta, passed.)
const c17MarginBelowMs = 10_000
const c17MaxMs = int64(1) << 40 // ~34 years

// W3: every failing handler call returns a value of its own (see lastHErr in c17Exec): "its result is
// returned" means the result of THIS call, not an error the handler returned earlier
func c17NewHandlerErr(k int) error {
	return errors.New(fmt.Sprintf("c17 handler error of handler call %d", k))
}

var c17Kinds = map[string]string{"num": "KNum", "id": "KId", "irrnum": "KIrrNum", "irrid": "KIrrId",
	"realtime": "KRealtime", "tripper": "KTripper", "timegator": "KTimeGator", "numgator": "KNumGator", "minfilter": "KMinFilter",
	// Y1: the same gators, built by package blockstream from its options and consulted by Source.readStream (c17bs.go)
	"bsnumgator": "KNumGator", "bstimegator": "KTimeGator"}

func c17UsesWallClock(kind string) bool {
	return kind == "realtime" || kind == "timegator" || kind == "bstimegator"
}
func c17ReadsTime(kind string) bool {
	return kind == "realtime" || kind == "timegator" || kind == "tripper" || kind == "bstimegator"
}
func c17AssertsForkable(kind string) bool { return kind == "irrnum" || kind == "irrid" }

// a value that is not a *ForkableObject (comparable by pointer)
type c17PlainObj struct{ I int }

func c17Validate(in *c17Input) error {
	if _, ok := c17Kinds[in.Kind]; !ok {
		return fmt.Errorf("unknown kind %q", in.Kind)
	}
	if in.ThrMs > c17MaxMs || in.ThrMs < -c17MaxMs {
		return fmt.Errorf("threshold out of range")
	}
	for i, e := range in.Events {
		if e.Step < 0 {
			return fmt.Errorf("negative step")
		}
		if e.AgoMs > c17MaxMs || e.AgoMs < -c17MaxMs {
			return fmt.Errorf("age out of range")
		}
		if c17UsesWallClock(in.Kind) {
			d := e.AgoMs - in.ThrMs
			if d < 0 && -d < c17MarginBelowMs {
				return fmt.Errorf("block age less than %d ms below the threshold: not decidable against the wall clock", c17MarginBelowMs)
			}
		}
		if in.objKind(i) < 0 || in.objKind(i) > 2 {
			return fmt.Errorf("unknown obj kind")
		}
		if in.objKind(i) != 0 && c17AssertsForkable(in.Kind) {
			return fmt.Errorf("the irreversible gates type-assert obj: another dynamic type is outside the property's quantifier")
		}
		if in.noTS(i) && c17ReadsTime(in.Kind) {
			return fmt.Errorf("this kind reads the block time: a block without timestamp is outside the documented assumptions")
		}
	}
	return nil
}

func c17Exec(raw json.RawMessage) (*Case, error) {
	var in c17Input
	if err := json.Unmarshal(raw, &in); err != nil {
		return nil, err
	}
	if err := c17Validate(&in); err != nil {
		return nil, err
	}
	obs := &c17Obs{Calls: make([][3]int, 0, len(in.Events))}

	n := len(in.Events)
	base := time.Now()
	if in.Kind == "tripper" {
		base = time.Date(2019, time.January, 1, 0, 0, 3, 0, time.UTC)
	}
	blks := make([]*pbbstream.Block, n)
	objs := make([]interface{}, n)
	// W3: "unchanged" = the whole block message and the whole object, not four fields: every block carries
	// a payload and the deprecated fields, every ForkableObject its multi-block step fields, and a
	// snapshot taken right before the call is compared when the handler is called and after the
	// call returned
	blkSnap := make([]*pbbstream.Block, n)
	fobjSnap := make([]forkable.ForkableObject, n)
	for i, e := range in.Events {
		t := base.Add(-time.Duration(e.AgoMs) * time.Millisecond)
		blks[i] = &pbbstream.Block{Id: e.ID, Number: e.Num, Timestamp: timestamppb.New(t), ParentId: "p" + e.ID, LibNum: 7,
			PayloadKind: pbbstream.Protocol(1 + i%3), PayloadVersion: int32(1 + i%5), PayloadBuffer: []byte("buf-" + e.ID),
			HeadNum: e.Num + 3, ParentNum: e.Num - 1,
			Payload: &anypb.Any{TypeUrl: "type.googleapis.com/sf.bstream.v1.verif.c17", Value: []byte(fmt.Sprintf("payload-%d-%s", i, e.ID))}}
		if in.noTS(i) {
			blks[i].Timestamp = nil
		}
		switch in.objKind(i) {
		case 0:
			fo := forkable.VerifC17ForkableObject(bstream.StepType(e.Step), i)
			fo.StepCount = 2 + i%3
			fo.StepIndex = 1 + i%2
			fo.StepBlocks = []*bstream.PreprocessedBlock{{Block: blks[i], Obj: i}, {Block: blks[0], Obj: -1}}
			objs[i] = fo
		case 1:
			objs[i] = nil
		case 2:
			objs[i] = &c17PlainObj{I: i}
		}
	}
	snapshot := func(i int) {
		blkSnap[i] = proto.Clone(blks[i]).(*pbbstream.Block)
		if fo, ok := objs[i].(*forkable.ForkableObject); ok {
			fobjSnap[i] = *fo
			fobjSnap[i].StepBlocks = append([]*bstream.PreprocessedBlock(nil), fo.StepBlocks...)
		}
	}
	// "" when block i and its object still are what was put in
	changed := func(i int) string {
		if !proto.Equal(blks[i], blkSnap[i]) {
			return "block message differs from the one put in: " + blks[i].String()
		}
		switch o := objs[i].(type) {
		case *forkable.ForkableObject:
			if !reflect.DeepEqual(*o, fobjSnap[i]) {
				return fmt.Sprintf("ForkableObject differs from the one put in: %+v", *o)
			}
		case *c17PlainObj:
			if o.I != i {
				return "plain object changed"
			}
		}
		return ""
	}

	// the wrapped handler
	type call struct {
		blk *pbbstream.Block
		obj interface{}
	}
	var calls []call
	total := 0
	var lastHErr error  // what the handler returned during the current gate call, when it failed
	cur := -1           // index of the event being processed
	changedAtCall := "" // W3: content seen BY THE HANDLER (a gate could restore it before returning)
	handler := bstream.HandlerFunc(func(blk *pbbstream.Block, obj interface{}) error {
		calls = append(calls, call{blk, obj})
		if cur >= 0 && changedAtCall == "" {
			changedAtCall = changed(cur)
		}
		k := total
		total++
		if k < len(in.HFlags) && in.HFlags[k] {
			lastHErr = c17NewHandlerErr(k)
			return lastHErr
		}
		return nil
	})
	trips := 0
	tripLate := false // W3: tripFunc ran after the block had been handed on
	thr := time.Duration(in.ThrMs) * time.Millisecond
	gt := bstream.GateType(in.GateType)

	func() {
		defer func() {
			if p := recover(); p != nil {
				obs.Panic = fmt.Sprint(p)
			}
		}()
		saved := bstream.GetProtocolFirstStreamableBlock
		bstream.GetProtocolFirstStreamableBlock = in.First
		defer func() { bstream.GetProtocolFirstStreamableBlock = saved }()

		var process func(blk *pbbstream.Block, obj interface{}) error
		var pass func(blk *pbbstream.Block) bool
		switch in.Kind {
		case "num":
			g := bstream.NewBlockNumGate(in.TNum, gt, handler)
			obs.DefMax = g.MaxHoldOff
			if in.MaxHold != nil {
				g.MaxHoldOff = *in.MaxHold
			}
			process = g.ProcessBlock
		case "id":
			g := bstream.NewBlockIDGate(in.TID, gt, handler)
			obs.DefMax = g.MaxHoldOff
			if in.MaxHold != nil {
				g.MaxHoldOff = *in.MaxHold
			}
			process = g.ProcessBlock
		case "irrnum":
			g := forkable.NewIrreversibleBlockNumGate(in.TNum, gt, handler)
			obs.DefMax = g.MaxHoldOff
			if in.MaxHold != nil {
				g.MaxHoldOff = *in.MaxHold
			}
			process = g.ProcessBlock
		case "irrid":
			g := forkable.NewIrreversibleBlockIDGate(in.TID, gt, handler)
			obs.DefMax = g.MaxHoldOff
			if in.MaxHold != nil {
				g.MaxHoldOff = *in.MaxHold
			}
			process = g.ProcessBlock
		case "realtime":
			process = bstream.NewRealtimeGate(thr, handler).ProcessBlock
		case "tripper":
			g := bstream.NewRealtimeTripper(thr, func() {
				trips++
				if len(calls) > 0 {
					tripLate = true
				}
			}, handler)
			bstream.VerifC17SetTripperNow(g, func() time.Time { return base })
			process = g.ProcessBlock
		case "minfilter":
			process = bstream.NewMinimalBlockNumFilter(in.TNum, handler).ProcessBlock
		case "timegator":
			pass = bstream.NewTimeThresholdGator(thr).Pass
		case "numgator":
			if in.GateType != 0 {
				pass = bstream.NewExclusiveBlockNumberGator(in.TNum).Pass
			} else {
				pass = bstream.NewBlockNumberGator(in.TNum).Pass
			}
		}

		wall := c17UsesWallClock(in.Kind)
		// Y1: the whole case goes through a real blockstream.Source first (c17bs.go); the loop below then only
		// records, per sent block, whether it reached the handler
		var bsF []int
		if c17IsBlockstream(in.Kind) {
			var stamp func(i int)
			if wall {
				stamp = func(i int) {
					blks[i].Timestamp = timestamppb.New(time.Now().Add(-time.Duration(in.Events[i].AgoMs) * time.Millisecond))
				}
			}
			var why []string
			var anomaly string
			bsF, why, anomaly = c17RunBlockstream(&in, blks, stamp)
			obs.Why = append(obs.Why, why...)
			if anomaly != "" {
				obs.Panic = anomaly
				return
			}
			wall = false // the blocks keep the time they were sent with
		}
		for i := range in.Events {
			calls = calls[:0]
			trips = 0
			tripLate = false
			changedAtCall = ""
			lastHErr = nil
			cur = i
			f, r := 0, 0
			if wall {
				blks[i].Timestamp = timestamppb.New(time.Now().Add(-time.Duration(in.Events[i].AgoMs) * time.Millisecond))
			}
			snapshot(i)
			if bsF != nil {
				f = bsF[i]
			} else if pass != nil {
				if pass(blks[i]) {
					f = 1
				}
			} else {
				err := process(blks[i], objs[i])
				switch {
				case err == nil:
					r = 0
				case lastHErr != nil && err == lastHErr:
					r = 2
				default:
					r = 1
				}
				switch {
				case len(calls) == 0:
					f = 0
				case len(calls) == 1 && calls[0].blk == blks[i] && calls[0].obj == objs[i]:
					f = 1
				default:
					f = 2
				}
			}
			// "unchanged": the block and the object still carry what was put in
			e := in.Events[i]
			if blks[i].Id != e.ID || blks[i].Number != e.Num || blks[i].ParentId != "p"+e.ID || blks[i].LibNum != 7 {
				f = 2
			}
			if fo, ok := objs[i].(*forkable.ForkableObject); ok && (fo.Step() != bstream.StepType(e.Step) || fo.Obj != i) {
				f = 2
			}
			if why := changed(i); why != "" {
				f = 2
				obs.Why = append(obs.Why, fmt.Sprintf("call %d: after the call: %s", i, why))
			}
			if changedAtCall != "" {
				f = 2
				obs.Why = append(obs.Why, fmt.Sprintf("call %d: at the handler call: %s", i, changedAtCall))
			}
			t := trips
			if tripLate {
				// the trip function must have run BEFORE the first real-time block is handed on
				// (C17_tripper, Model.Gates.tripper_step); 10+ is no value the model produces
				t += 10
				obs.Why = append(obs.Why, fmt.Sprintf("call %d: tripFunc ran after the handler call", i))
			}
			obs.Calls = append(obs.Calls, [3]int{f, r, t})
		}
		// W3: a gate keeps no block: nothing that went in (forwarded or held) is altered by a LATER call either
		cur = -1
		for i := range obs.Calls {
			if why := changed(i); why != "" && obs.Calls[i][0] != 2 {
				obs.Calls[i][0] = 2
				obs.Why = append(obs.Why, fmt.Sprintf("call %d: altered by a later call: %s", i, why))
			}
		}
	}()

	// ---- Coq term
	evs := make([]string, n)
	for i, e := range in.Events {
		evs[i] = fmt.Sprintf("mkEv %s %d %d %s", coqBytes(e.ID), e.Num, e.Step, coqBool(e.AgoMs < in.ThrMs))
	}
	os := make([]string, len(obs.Calls))
	for i, c := range obs.Calls {
		os[i] = fmt.Sprintf("(%d,%d,%d)", c[0], c[1], c[2])
	}
	flags := make([]string, len(in.HFlags))
	for i, b := range in.HFlags {
		flags[i] = coqBool(b)
	}
	mh := "None"
	if in.MaxHold != nil {
		mh = "(Some " + coqZ(int64(*in.MaxHold)) + ")"
	}
	cs := &Case{Obs: obs}
	cs.Coq = fmt.Sprintf("C17 %s %d %d %s %s %s %s %s %s %s %s", c17Kinds[in.Kind], in.First, in.TNum, coqBytes(in.TID),
		coqBool(in.GateType == 0), mh, coqZ(int64(obs.DefMax)), coqList(flags), coqList(evs), coqList(os), coqBool(obs.Panic != ""))
	cs.Class = c17Class(&in, obs)
	cs.Nontrivial = n > 0
	cs.Key = string(raw)
	return cs, nil
}

// input class / outcome class
func c17Class(in *c17Input, obs *c17Obs) string {
	typ := "incl"
	if in.GateType != 0 {
		typ = "excl"
	}
	tc := "-"
	switch in.Kind {
	case "num", "irrnum", "numgator", "minfilter", "bsnumgator":
		reach := 0
		for _, e := range in.Events {
			if e.Num >= in.TNum {
				reach++
			}
		}
		switch {
		case (in.Kind == "num" || in.Kind == "irrnum") && in.TNum < in.First:
			tc = "below-first"
		case reach == 0:
			tc = "absent"
		default:
			tc = "present"
		}
	case "id", "irrid":
		hits := 0
		for _, e := range in.Events {
			if e.ID == in.TID {
				hits++
			}
		}
		switch {
		case in.TID == "" || in.TID == c17Zero64:
			tc = "special-id"
		case hits == 0:
			tc = "absent"
		case hits == 1:
			tc = "present"
		default:
			tc = "repeated"
		}
	}
	out := "never"
	hold, herr := false, false
	for _, c := range obs.Calls {
		if c[0] != 0 {
			out = "opened"
		}
		if c[1] == 1 {
			hold = true
		}
		if c[1] == 2 {
			herr = true
		}
	}
	if hold {
		out += "+holdoff"
	}
	if herr {
		out += "+herr"
	}
	if obs.Panic != "" {
		out = "panic"
	}
	return strings.Join([]string{in.Kind, typ, tc, out}, "/")
}

// ---------------------------------------------------------------- generator

var c17Firsts = []uint64{0, 1, 2, 2, 3, 5, 100, 1 << 32}
var c17Bases = []uint64{0, 1, 2, 3, 97, 1<<32 - 3, 1<<63 - 3, 1<<64 - 45}
var c17MaxHolds = []int{0, 1, 2, 3, 5, 10, -1, -7, 1000}
var c17Steps = []int{1, 2, 16, 17, 32, 0}

func c17BlockID(num uint64, fork int) string {
	return fmt.Sprintf("%x%c", num&0xffffff, 'a'+byte(fork))
}

// a forkable-looking stream: New events with occasional forks / undos, each followed (for the
// irreversible kinds) by the Irreversible event of an earlier block
func c17GenEvents(r *Rng, kind string, first uint64, thr int64) []c17Ev {
	n := r.Intn(36)
	if r.Chance(10) {
		n = r.Intn(4)
	}
	var base uint64
	switch r.Intn(4) {
	case 0:
		base = first
	case 1:
		base = r.Pick(c17Bases)
	default:
		base = uint64(r.Intn(6))
	}
	withSteps := kind == "irrnum" || kind == "irrid"
	lag := uint64(1 + r.Intn(3))
	// age profile: catching up from far behind, or everything old, or everything live
	wall := c17UsesWallClock(kind)
	age := int64(0)
	profile := r.Intn(4)
	switch profile {
	case 0, 1:
		age = thr + int64(3+r.Intn(20))*3_600_000
	case 2:
		age = thr + 1000*3_600_000
	case 3:
		age = thr - 120_000
	}
	clampAge := func(a int64) int64 {
		if wall {
			d := a - thr
			if d < 0 && -d < c17MarginBelowMs {
				return thr - c17MarginBelowMs
			}
		}
		return a
	}
	var evs []c17Ev
	num := base
	var newIDs []c17Ev
	for len(evs) < n {
		fork := 0
		if r.Chance(12) {
			fork = 1 + r.Intn(2)
		}
		e := c17Ev{ID: c17BlockID(num, fork), Num: num, Step: 1}
		switch profile {
		case 0, 1:
			age -= int64(r.Intn(4)) * 3_600_000
			if r.Chance(10) {
				age += 5 * 3_600_000 // a stale block again after live ones: the latch must hold
			}
		}
		if !wall && r.Chance(15) {
			age = thr + int64(r.Intn(5)) - 2 // exact boundary (controllable clock only)
		}
		if wall && r.Chance(15) {
			// W3: close to the threshold against the wall clock too: exactly at it and just above (never
			// real time), and from 10 s below it (real time)
			age = thr + []int64{0, 1, 400, 29_000, 31_000, 59_000, -10_000, -10_001, -29_000, -31_000, -59_000}[r.Intn(11)]
		}
		e.AgoMs = clampAge(age)
		if withSteps && r.Chance(15) {
			e.Step = c17Steps[r.Intn(len(c17Steps))]
		}
		evs = append(evs, e)
		newIDs = append(newIDs, e)
		if withSteps && uint64(len(newIDs)) > lag && r.Chance(80) {
			old := newIDs[uint64(len(newIDs))-1-lag]
			st := 16
			if r.Chance(10) {
				st = 17
			}
			evs = append(evs, c17Ev{ID: old.ID, Num: old.Num, Step: st, AgoMs: e.AgoMs})
		}
		if withSteps && r.Chance(8) {
			evs = append(evs, c17Ev{ID: e.ID, Num: e.Num, Step: 2, AgoMs: e.AgoMs}) // undo
		}
		switch {
		case r.Chance(8): // same height again (fork sibling)
		case r.Chance(5) && num > base: // step back
			num--
		case r.Chance(5):
			num += 2 + uint64(r.Intn(3)) // hole
		default:
			num++
		}
	}
	return evs
}

func c17Many(n int) []c17Ev {
	many := make([]c17Ev, n)
	for i := range many {
		many[i] = c17Ev{ID: fmt.Sprintf("%xa", i+3), Num: uint64(i + 3), Step: 16}
	}
	return many
}

func c17Gen(r *Rng, i int, tier string) any {
	if tier == "thorough" && i == 0 {
		// the constructor's default limit end to end: 15001 held blocks, only the last call fails
		return c17Input{Kind: "num", First: 2, TNum: 1_000_000, GateType: 0, Events: c17Many(15001)}
	}
	kinds := []string{"num", "num", "id", "id", "irrnum", "irrnum", "irrid", "irrid", "irrid", "realtime", "tripper", "timegator", "numgator", "minfilter"}
	in := c17Input{Kind: kinds[r.Intn(len(kinds))]}
	// Y1: the gators as wired by package blockstream (about one case in ten)
	bs := ""
	if r.Chance(10) {
		bs = []string{"bsnumgator", "bsnumgator", "bstimegator"}[r.Intn(3)]
		in.Kind = bs[2:] // drawn like the plain gator case, renamed at the end
	}
	in.First = c17Firsts[r.Intn(len(c17Firsts))]
	in.ThrMs = []int64{3_600_000, 600_000, 0, -3_600_000, 86_400_000, 1000}[r.Intn(6)]
	in.Events = c17GenEvents(r, in.Kind, in.First, in.ThrMs)
	in.GateType = r.Intn(2)
	if r.Chance(3) {
		in.GateType = 2
	}
	if !r.Chance(20) {
		m := c17MaxHolds[r.Intn(len(c17MaxHolds))]
		in.MaxHold = &m
	}
	if r.Chance(35) {
		k := r.Intn(len(in.Events) + 2)
		in.HFlags = make([]bool, k)
		for j := range in.HFlags {
			in.HFlags[j] = r.Chance(40)
		}
	}
	n := len(in.Events)
	// target number
	switch r.Intn(7) {
	case 0: // below the first streamable block
		if in.First > 0 {
			in.TNum = uint64(r.Intn(int(minU64(in.First, 1000))))
		}
	case 1: // absent: above everything
		var mx uint64
		for _, e := range in.Events {
			if e.Num > mx {
				mx = e.Num
			}
		}
		if mx < 1<<64-10 {
			in.TNum = mx + 1 + uint64(r.Intn(5))
		} else {
			in.TNum = 1<<64 - 1
		}
	case 2:
		in.TNum = uint64(r.Intn(3))
	case 3:
		in.TNum = r.Pick([]uint64{0, 1, 2, 1 << 32, 1 << 63, 1<<64 - 1})
	default: // present
		if n > 0 {
			in.TNum = in.Events[r.Intn(n)].Num
		}
	}
	// target id
	switch r.Intn(8) {
	case 0:
		in.TID = ""
	case 1:
		in.TID = c17Zero64
	case 2:
		in.TID = "deadbeef"
	case 3:
		in.TID = c17Zero64[:63]
	default:
		if n > 0 {
			in.TID = in.Events[r.Intn(n)].ID
		}
	}
	// W3: blocks whose id is NOT the target but close to it (other letter case, 0x prefix, one character more
	// or less, surrounding space): an id gate must treat them as any other block
	if (in.Kind == "id" || in.Kind == "irrid") && in.TID != "" && r.Chance(25) && n > 0 {
		near := []string{strings.ToUpper(in.TID), "0x" + in.TID, in.TID + "0", in.TID[:len(in.TID)-1], " " + in.TID, in.TID + " ",
			strings.TrimPrefix(in.TID, "0"), "0" + in.TID}
		for j := range in.Events {
			if r.Chance(25) {
				in.Events[j].ID = near[r.Intn(len(near))]
			}
		}
	}
	// W3: obj is not always a ForkableObject (the gates of package bstream hand it on untouched), and a block
	// need not carry a timestamp where the gate has no business reading it
	if !c17AssertsForkable(in.Kind) && r.Chance(15) && n > 0 {
		in.ObjKinds = make([]int, n)
		for j := range in.ObjKinds {
			if r.Chance(50) {
				in.ObjKinds[j] = 1 + r.Intn(2)
			}
		}
	}
	if !c17ReadsTime(in.Kind) && r.Chance(12) && n > 0 {
		in.NoTS = make([]bool, n)
		for j := range in.NoTS {
			in.NoTS[j] = r.Chance(50)
		}
	}
	// malformed stream: ids that collide across heights, empty ids, arbitrary steps
	if r.Chance(6) && n > 0 {
		for j := range in.Events {
			if r.Chance(30) {
				in.Events[j].ID = []string{"", c17Zero64, in.TID, "x"}[r.Intn(4)]
			}
			if r.Chance(30) {
				in.Events[j].Step = r.Intn(64)
			}
			if r.Chance(20) {
				in.Events[j].Num = r.Pick([]uint64{0, 1, 2, in.First, in.TNum, 1<<64 - 1})
			}
		}
	}
	if bs != "" {
		in.Kind = bs
		in.ObjKinds = nil // the object comes from the source (no preprocessor: nil), not from the case
	}
	return in
}

func minU64(a, b uint64) uint64 {
	if a < b {
		return a
	}
	return b
}

func c17Corpus() []any {
	ip := func(v int) *int { return &v }
	H := int64(3_600_000)
	// the target block arrives as New two events before it becomes irreversible
	irr := []c17Ev{{"00000005a", 5, 1, 0}, {"00000006a", 6, 1, 0}, {"00000004a", 4, 16, 0}, {"00000007a", 7, 1, 0},
		{"00000005a", 5, 16, 0}, {"00000008a", 8, 1, 0}, {"00000006a", 6, 16, 0}}
	many := c17Many(60)
	long := c17Many(300) // W3: far more held blocks than a one-byte counter can count
	low := []c17Ev{{"00000002a", 2, 16, 0}, {"00000003a", 3, 16, 0}, {"00000004a", 4, 16, 0}}
	ages := []c17Ev{{"00000002a", 2, 1, 5 * H}, {"00000003a", 3, 1, 3 * H}, {"00000004a", 4, 1, 0}, {"00000005a", 5, 1, 4 * H}, {"00000006a", 6, 1, -2 * H}}
	exact := []c17Ev{{"00000002a", 2, 1, 3000}, {"00000003a", 3, 1, 1000}, {"00000004a", 4, 1, 999}, {"00000005a", 5, 1, 5000}, {"00000006a", 6, 1, -2000}}
	return []any{
		c17Input{Kind: "irrid", TID: "00000005a", GateType: 0, Events: irr},
		c17Input{Kind: "irrid", TID: "00000005a", GateType: 1, Events: irr, MaxHold: ip(2)},
		c17Input{Kind: "irrnum", TNum: 5, GateType: 0, Events: irr},
		c17Input{Kind: "num", First: 2, TNum: 1_000_000, GateType: 0, Events: many[:60]},
		c17Input{Kind: "id", TID: "nope", GateType: 0, Events: many[:40], MaxHold: ip(-1)},
		c17Input{Kind: "num", First: 2, TNum: 0, GateType: 1, Events: low, HFlags: []bool{false, true}},
		c17Input{Kind: "num", First: 3, TNum: 2, GateType: 1, Events: low},
		c17Input{Kind: "irrnum", First: 5, TNum: 1, GateType: 1, Events: low},
		c17Input{Kind: "irrnum", First: 3, TNum: 2, GateType: 1, Events: low},
		// finding C17-irrnum-first-streamable-constants: first streamable block 1 (resp. 3), gate below it
		c17Input{Kind: "irrnum", First: 1, TNum: 0, GateType: 1, Events: []c17Ev{{"00000001a", 1, 16, 0}, {"00000002a", 2, 16, 0}, {"00000003a", 3, 16, 0}}},
		c17Input{Kind: "irrnum", First: 3, TNum: 1, GateType: 1, Events: low},
		c17Input{Kind: "id", TID: "", GateType: 1, Events: low},
		c17Input{Kind: "id", TID: c17Zero64, GateType: 1, Events: low[1:]},
		c17Input{Kind: "numgator", TNum: 3, GateType: 0, Events: low},
		c17Input{Kind: "numgator", TNum: 3, GateType: 1, Events: low},
		c17Input{Kind: "timegator", ThrMs: H, Events: ages},
		c17Input{Kind: "realtime", ThrMs: H, Events: ages, HFlags: []bool{true, false, true}},
		c17Input{Kind: "tripper", ThrMs: 1000, Events: exact},
		c17Input{Kind: "minfilter", TNum: 3, Events: []c17Ev{{"2a", 2, 1, 0}, {"3a", 3, 1, 0}, {"2b", 2, 1, 0}, {"4a", 4, 1, 0}}},
		// W3: the hold-off failure goes on for as long as the gate is closed (300 held blocks, limits 5 and 200)
		c17Input{Kind: "num", First: 2, TNum: 1_000_000, GateType: 0, Events: long, MaxHold: ip(5)},
		c17Input{Kind: "id", TID: "nope", GateType: 1, Events: long, MaxHold: ip(200)},
		c17Input{Kind: "irrnum", First: 2, TNum: 1_000_000, GateType: 1, Events: long, MaxHold: ip(200)},
		c17Input{Kind: "irrid", TID: "nope", GateType: 0, Events: long, MaxHold: ip(5)},
		// W3: ids close to the target, nil / foreign obj, blocks without timestamp
		c17Input{Kind: "id", TID: "00000004a", GateType: 0, Events: []c17Ev{{"00000004A", 4, 1, 0}, {"0x00000004a", 4, 1, 0}, {"00000004a ", 4, 1, 0}, {"00000004a", 4, 1, 0}, {"00000005a", 5, 1, 0}},
			ObjKinds: []int{1, 2, 0, 1, 2}, NoTS: []bool{true, false, true, true, false}},
		c17Input{Kind: "irrid", TID: "00000004a", GateType: 1, Events: []c17Ev{{"00000004A", 4, 16, 0}, {"0000004a", 4, 16, 0}, {"00000004a", 4, 16, 0}, {"00000005a", 5, 16, 0}}, NoTS: []bool{true, true, true, true}},
		c17Input{Kind: "minfilter", TNum: 3, Events: []c17Ev{{"2a", 2, 1, 0}, {"3a", 3, 1, 0}, {"4a", 4, 1, 0}, {"5a", 5, 1, 0}}, ObjKinds: []int{1, 1, 2, 0}, NoTS: []bool{false, true, false, true}},
		c17Input{Kind: "tripper", ThrMs: 1000, Events: exact, ObjKinds: []int{1, 1, 1, 2, 0}},
		// W3: the wall clock close to the threshold: at it and above = not real time, 10 s below = real time
		c17Input{Kind: "realtime", ThrMs: H, Events: []c17Ev{{"00000002a", 2, 1, H + 59_000}, {"00000003a", 3, 1, H + 1}, {"00000004a", 4, 1, H}, {"00000005a", 5, 1, H - 10_000}, {"00000006a", 6, 1, H}}},
		c17Input{Kind: "timegator", ThrMs: 1000, Events: []c17Ev{{"00000002a", 2, 1, 31_000}, {"00000003a", 3, 1, 1400}, {"00000004a", 4, 1, 1000}, {"00000005a", 5, 1, -9000}, {"00000006a", 6, 1, 1000}}},
		// Y1: the same gators through blockstream.NewSource(..., WithNumGator / WithTimeThresholdGator) and Source.Run
		c17Input{Kind: "bsnumgator", TNum: 3, GateType: 0, Events: low},
		c17Input{Kind: "bsnumgator", TNum: 3, GateType: 1, Events: low},
		c17Input{Kind: "bsnumgator", TNum: 4, GateType: 0, Events: []c17Ev{{"2a", 2, 1, 0}, {"4a", 4, 1, 0}, {"3b", 3, 1, 0}, {"4b", 4, 1, 0}, {"5a", 5, 1, 0}}},
		c17Input{Kind: "bstimegator", ThrMs: H, Events: ages},
		c17Input{Kind: "bstimegator", ThrMs: 1000, Events: []c17Ev{{"00000002a", 2, 1, 31_000}, {"00000003a", 3, 1, 1400}, {"00000004a", 4, 1, 1000}, {"00000005a", 5, 1, -9000}, {"00000006a", 6, 1, 1000}}},
	}
}

func init() {
	props["C17"] = &Prop{Gen: c17Gen, Exec: c17Exec, Corpus: c17Corpus}
}
