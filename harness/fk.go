package main

// Forkable family (C01, C02, C03, C04, C18): one history through the real forkable.Forkable,
// observed at the handler and through the public lookup API after every block.

import (
	"encoding/json"
	"errors"
	"fmt"
	"sort"
	"strconv"
	"strings"
	"time"

	"google.golang.org/protobuf/proto"
	"google.golang.org/protobuf/types/known/anypb"
	"google.golang.org/protobuf/types/known/timestamppb"

	"github.com/streamingfast/bstream"
	"github.com/streamingfast/bstream/forkable"
	pbbstream "github.com/streamingfast/bstream/pb/sf/bstream/v1"
)

type fkBlock struct {
	ID     uint64 `json:"id"`
	Num    uint64 `json:"num"`
	Parent uint64 `json:"parent"`
	Lib    uint64 `json:"lib"`
}
type fkRef struct {
	ID  uint64 `json:"id"`
	Num uint64 `json:"num"`
}
type fkInput struct {
	Prop    string    `json:"prop"`
	Mode    string    `json:"mode"` // excl | incl | disc | none
	LIB     fkRef     `json:"lib"`
	First   uint64    `json:"first"`
	Kept    int       `json:"kept"`
	AllTrig bool      `json:"alltrig"`
	Filter  int       `json:"filter"`  // StepType bitmask
	FailAt  int       `json:"fail_at"` // -1 = never
	History []fkBlock `json:"history"`
	Lookups bool      `json:"lookups"`
	Shape   string    `json:"shape"`
}
type fkEvent struct {
	Step  int     `json:"step"`
	Blk   fkBlock `json:"blk"`
	CBlk  fkRef   `json:"cblk"`
	Head  fkRef   `json:"head"`
	Lib   fkRef   `json:"lib"`
	Junc  *fkRef  `json:"junc,omitempty"`
	Idx   int     `json:"idx"`
	Count int     `json:"count"`
	// W3: observables the Coq event type has no field for (see fkCursorBlk, fkRecorder.ProcessBlock)
	CStep int `json:"cstep,omitempty"` // the CURSOR's step (Step above is the event's: ForkableObject.Step())
	Flags int `json:"flags,omitempty"` // fkFlag* bits: what was handed to the handler is not what was fed
}

// W3 flags of one delivered event (0 = consistent)
const (
	fkFlagBlock      = 1 // the delivered block is not (proto.Equal to) any block that was fed under that id (payload, timestamp, ...)
	fkFlagObj        = 2 // the wrapped object (ForkableObject.Obj) is not the object that was fed together with that block
	fkFlagStepBlocks = 4 // StepBlocks disagrees with StepCount / StepIndex / the delivered block (or a New event carries batch fields)
	fkFlagFinal      = 8 // FinalBlockHeight() is not the cursor's LIB height
)

// W3: C04 "a cursor whose step and block are those of the event": the Coq event carries the event's step and the cursor's block;
// a cursor whose STEP is not the event's is projected as a cursor block that is no block at all (foreign id), so that the clause
// `ecblk = bref eblk` of c04_b / cursors_ok / c04_file_verdict stands for the pair (step, block)
func fkCursorBlk(c *bstream.Cursor, step bstream.StepType) fkRef {
	if c.Step != step {
		return fkRef{ID: 1<<63 + 7777, Num: c.Block.Num()}
	}
	return fkRefOf(c.Block)
}

type fkLook struct {
	AllIDs  []uint64   `json:"all_ids"`
	Lowest  int64      `json:"lowest"` // -1 = panic
	Canon   []uint64   `json:"canon"`  // per queried height: id or 0
	AllAt   [][]uint64 `json:"all_at"` // per queried height: sorted ids; nil entry + AllAtPanic flag
	AtPanic []bool     `json:"at_panic"`
	ByHash  []bool     `json:"by_hash"`
}
type fkStepObs struct {
	Events  []fkEvent `json:"events"`
	Result  string    `json:"result"` // ok | handler | selfparent | panic | other
	HeadOK  bool      `json:"head_ok"`
	Head    fkRef     `json:"head"`
	HeadLib uint64    `json:"head_lib"`
	HeadNum uint64    `json:"head_num"`
	Look    *fkLook   `json:"look,omitempty"`
	ErrText string    `json:"err_text,omitempty"` // W3: text of an error that is not (a wrapper of) the handler's error value
}
type fkObs struct {
	Steps []fkStepObs `json:"steps"`
	QH    []uint64    `json:"qh,omitempty"`
	QI    []uint64    `json:"qi,omitempty"`
	// W3 (C03 "outputs do not depend on the retention setting or on re-fed or below-LIB blocks", evaluated on the REAL code):
	// bit 1: the run with another kept-final-blocks value delivered something else; bit 2: the run on the history without its
	// re-fed and below-LIB blocks delivered something else for the remaining blocks
	Indep     int    `json:"indep"`
	IndepNote string `json:"indep_note,omitempty"`
}

func fkIDStr(n uint64) string {
	if n == 0 {
		return ""
	}
	return fmt.Sprintf("%020x", n)
}
func fkIDNum(s string) uint64 {
	if s == "" {
		return 0
	}
	n, err := strconv.ParseUint(s, 16, 64)
	if err != nil {
		return 1<<63 + uint64(len(s)) // foreign id: never equals a generated one
	}
	return n
}
func fkRefOf(r bstream.BlockRef) fkRef {
	if r == nil {
		return fkRef{}
	}
	return fkRef{fkIDNum(r.ID()), r.Num()}
}
func fkPB(b fkBlock) *pbbstream.Block {
	return &pbbstream.Block{Id: fkIDStr(b.ID), Number: b.Num, ParentId: fkIDStr(b.Parent), LibNum: b.Lib, Timestamp: timestamppb.New(time.Unix(1600000000+int64(b.Num%100000), 0))}
}
func fkFromPB(b *pbbstream.Block) fkBlock {
	return fkBlock{fkIDNum(b.Id), b.Number, fkIDNum(b.ParentId), b.LibNum}
}

var errFkHandler = fmt.Errorf("verif handler failure")

func fkOptions(in *fkInput) []forkable.Option {
	var opts []forkable.Option
	switch in.Mode {
	case "excl":
		opts = append(opts, forkable.WithExclusiveLIB(bstream.NewBlockRef(fkIDStr(in.LIB.ID), in.LIB.Num)))
	case "incl":
		opts = append(opts, forkable.WithInclusiveLIB(bstream.NewBlockRef(fkIDStr(in.LIB.ID), in.LIB.Num)))
	case "disc":
		opts = append(opts, forkable.HoldBlocksUntilLIB())
	}
	opts = append(opts, forkable.WithFilters(bstream.StepType(in.Filter)), forkable.WithKeptFinalBlocks(in.Kept))
	if in.AllTrig {
		opts = append(opts, forkable.EnsureAllBlocksTriggerLongestChain())
	}
	return opts
}

type fkTok struct {
	id  string
	seq int
}
type fkFed struct {
	pb  *pbbstream.Block
	tok *fkTok
}
type fkRecorder struct {
	calls  int
	failAt int
	cur    *[]fkEvent
	fed    map[string][]fkFed // W3: what was fed, per id (nil: the caller feeds plain blocks, no identity flags)
}

// W3: is what the handler received what the source fed?
func (h *fkRecorder) flags(blk *pbbstream.Block, fo *forkable.ForkableObject) int {
	fl := 0
	if c := fo.Cursor(); c != bstream.EmptyCursor && fo.FinalBlockHeight() != c.LIB.Num() {
		fl |= fkFlagFinal
	}
	if h.fed == nil {
		return fl
	}
	okBlk, okObj := false, false
	for _, f := range h.fed[blk.Id] {
		same := f.pb == blk
		if same || proto.Equal(f.pb, blk) {
			okBlk = true
			if tok, _ := fo.Obj.(*fkTok); tok != nil && tok == f.tok {
				okObj = true
			} else if same {
				// the very object that was fed with another wrapped object than the one fed with it
				okObj = false
				break
			}
		}
	}
	if !okBlk {
		fl |= fkFlagBlock
	}
	if !okObj {
		fl |= fkFlagObj
	}
	if fo.WrappedObject() != fo.Obj {
		fl |= fkFlagObj
	}
	// batch fields: Undo / redo / Irreversible / Stalled batches number their events and hand the whole batch along
	if fo.StepCount == 0 && fo.StepIndex == 0 && fo.StepBlocks == nil {
		if fo.Step() != bstream.StepNew {
			fl |= fkFlagStepBlocks
		}
	} else {
		if len(fo.StepBlocks) != fo.StepCount || fo.StepIndex < 0 || fo.StepIndex >= len(fo.StepBlocks) {
			fl |= fkFlagStepBlocks
		} else if sb := fo.StepBlocks[fo.StepIndex]; sb == nil || sb.Block != blk || sb.Obj != fo.Obj {
			fl |= fkFlagStepBlocks
		} else {
			for _, sb := range fo.StepBlocks {
				if sb == nil || sb.Block == nil {
					fl |= fkFlagStepBlocks
				}
			}
		}
	}
	return fl
}

func (h *fkRecorder) ProcessBlock(blk *pbbstream.Block, obj interface{}) error {
	fo := obj.(*forkable.ForkableObject)
	c := fo.Cursor()
	ev := fkEvent{Step: int(fo.Step()), Blk: fkFromPB(blk), CBlk: fkCursorBlk(c, fo.Step()), Head: fkRefOf(c.HeadBlock), Lib: fkRefOf(c.LIB),
		Idx: fo.StepIndex, Count: fo.StepCount, CStep: int(c.Step), Flags: h.flags(blk, fo)}
	if j := fo.ReorgJunctionBlock(); j != nil {
		r := fkRefOf(j)
		ev.Junc = &r
	}
	*h.cur = append(*h.cur, ev)
	k := h.calls
	h.calls++
	if h.failAt >= 0 && k == h.failAt {
		return errFkHandler
	}
	return nil
}

func fkLookups(p *forkable.Forkable, qh, qi []uint64) *fkLook {
	l := &fkLook{}
	for _, id := range p.AllIDs() {
		l.AllIDs = append(l.AllIDs, fkIDNum(id))
	}
	sort.Slice(l.AllIDs, func(i, j int) bool { return l.AllIDs[i] < l.AllIDs[j] })
	func() {
		defer func() {
			if r := recover(); r != nil {
				l.Lowest = -1
			}
		}()
		l.Lowest = int64(p.LowestBlockNum())
	}()
	for _, h := range qh {
		var id uint64
		func() {
			defer func() { recover() }()
			if b := p.CanonicalBlockAt(h); b != nil {
				id = fkIDNum(b.Id)
			}
		}()
		l.Canon = append(l.Canon, id)
		var ids []uint64
		panicked := false
		func() {
			defer func() {
				if r := recover(); r != nil {
					panicked = true
				}
			}()
			for _, b := range p.AllBlocksAt(h) {
				ids = append(ids, fkIDNum(b.Id))
			}
		}()
		sort.Slice(ids, func(i, j int) bool { return ids[i] < ids[j] })
		if ids == nil {
			ids = []uint64{}
		}
		l.AllAt = append(l.AllAt, ids)
		l.AtPanic = append(l.AtPanic, panicked)
	}
	for _, id := range qi {
		// W1: "returns by hash" = returns the block WITH THAT HASH (a non-nil answer carrying another id is not a find)
		b := p.GetBlockByHash(fkIDStr(id))
		l.ByHash = append(l.ByHash, b != nil && b.Id == fkIDStr(id))
	}
	return l
}

// fkRun feeds the history to a real Forkable; feeding stops at the first error like a source would.
func fkRun(in *fkInput) (*fkObs, *forkable.Forkable) {
	saved := bstream.GetProtocolFirstStreamableBlock
	bstream.GetProtocolFirstStreamableBlock = in.First
	defer func() { bstream.GetProtocolFirstStreamableBlock = saved }()

	obs := &fkObs{}
	if in.Lookups {
		seenH := map[uint64]bool{}
		seenI := map[uint64]bool{}
		add := func(h uint64) {
			if !seenH[h] {
				seenH[h] = true
				obs.QH = append(obs.QH, h)
			}
		}
		for _, b := range in.History {
			add(b.Num)
			if !seenI[b.ID] && b.ID != 0 {
				seenI[b.ID] = true
				obs.QI = append(obs.QI, b.ID)
			}
		}
		if in.Mode == "excl" || in.Mode == "incl" {
			add(in.LIB.Num)
			if !seenI[in.LIB.ID] {
				obs.QI = append(obs.QI, in.LIB.ID)
			}
		}
		sort.Slice(obs.QH, func(i, j int) bool { return obs.QH[i] < obs.QH[j] })
		sort.Slice(obs.QI, func(i, j int) bool { return obs.QI[i] < obs.QI[j] })
	}
	rec := &fkRecorder{failAt: in.FailAt, fed: map[string][]fkFed{}}
	p := forkable.New(rec, fkOptions(in)...)
	for seq, b := range in.History {
		var evs []fkEvent
		rec.cur = &evs
		st := fkStepObs{}
		func() {
			defer func() {
				if r := recover(); r != nil {
					st.Result = "panic"
				}
			}()
			// W3: every fed block carries a payload and travels with its own wrapped object, so that the recorder can tell
			// whether the handler is handed the block (and object) that was fed
			pb := fkPB(b)
			pb.Payload = &anypb.Any{TypeUrl: "verif/fk", Value: []byte(fmt.Sprintf("%d/%d/%d/%d", b.ID, b.Num, b.Parent, b.Lib))}
			tok := &fkTok{id: pb.Id, seq: seq}
			rec.fed[pb.Id] = append(rec.fed[pb.Id], fkFed{pb, tok})
			err := p.ProcessBlock(pb, tok)
			switch {
			case err == nil:
				st.Result = "ok"
			case errors.Is(err, errFkHandler):
				// W3: "a handler error is returned to the source": the source must be able to recognise the handler's error VALUE
				// (errors.Is through any wrapping); an error that merely repeats its text is another error ("other" below)
				st.Result = "handler"
			case strings.Contains(err.Error(), errFkHandler.Error()):
				st.Result = "other"
				st.ErrText = "not the handler's error value (errors.Is fails): " + err.Error()
			case strings.Contains(err.Error(), "invalid block ID detected"):
				st.Result = "selfparent"
			default:
				st.Result = "other"
			}
		}()
		if evs == nil {
			evs = []fkEvent{}
		}
		st.Events = evs
		if num, id, tm, lib, err := p.HeadInfo(); err == nil {
			// W1: the head TIME is part of the head information; fkPB derives every block's timestamp from its number, so a
			// head time that is not the head block's is projected as "no head information" (model mismatch + C18 head clause)
			st.HeadOK = tm.Equal(time.Unix(1600000000+int64(num%100000), 0))
			st.Head = fkRef{fkIDNum(id), num}
			st.HeadLib = lib
		}
		st.HeadNum = p.HeadNum()
		if in.Lookups && st.Result != "panic" {
			st.Look = fkLookups(p, obs.QH, obs.QI)
		}
		obs.Steps = append(obs.Steps, st)
		if st.Result != "ok" {
			break
		}
	}
	return obs, p
}

// ---- W3: C03's independence clauses on the real code ----

// what one run delivered, step by step, as comparable text (events with every recorded field, result, head information)
func fkStepSig(s fkStepObs) string {
	b, _ := json.Marshal(struct {
		E []fkEvent
		R string
		H fkRef
		O bool
		L uint64
		N uint64
	}{s.Events, s.Result, s.Head, s.HeadOK, s.HeadLib, s.HeadNum})
	return string(b)
}

// fkIndep runs the real Forkable again (a) with other kept-final-blocks values and (b) on the history without its noise blocks:
// a block fed before (same id and content), or a block under the current LIB height once a tip exists, that delivered nothing.
// The LIB height used is the starting LIB and then the highest cursor LIB seen so far (never above the real one).
func fkIndep(in *fkInput, obs *fkObs) (int, string) {
	if in.FailAt >= 0 || (in.Mode != "excl" && in.Mode != "incl") || len(obs.Steps) != len(in.History) {
		return 0, ""
	}
	for _, s := range obs.Steps {
		if s.Result != "ok" {
			return 0, ""
		}
	}
	res, note := 0, ""
	base := make([]string, len(obs.Steps))
	for i, s := range obs.Steps {
		base[i] = fkStepSig(s)
	}
	for _, k := range []int{0, 1, 4, 9} {
		if k == in.Kept {
			continue
		}
		in2 := *in
		in2.Kept, in2.Lookups = k, false
		o2, _ := fkRun(&in2)
		bad := len(o2.Steps) != len(base)
		for i := 0; !bad && i < len(base); i++ {
			if fkStepSig(o2.Steps[i]) != base[i] {
				bad = true
				note += fmt.Sprintf("kept %d instead of %d: block #%d of the history delivers %s instead of %s; ", k, in.Kept, i, fkStepSig(o2.Steps[i]), base[i])
			}
		}
		if bad {
			res |= 1
			break
		}
	}
	// noise
	libn := in.LIB.Num
	tip := false
	seen := map[fkBlock]bool{}
	var h2 []fkBlock
	var keep []int
	for i, b := range in.History {
		noise := len(obs.Steps[i].Events) == 0 && (seen[b] || (tip && b.Num < libn))
		seen[b] = true
		for _, e := range obs.Steps[i].Events {
			if e.Step == 1 || e.Step == 17 {
				tip = true
			}
			if e.Lib.Num > libn {
				libn = e.Lib.Num
			}
		}
		if !noise {
			h2 = append(h2, b)
			keep = append(keep, i)
		}
	}
	if len(h2) < len(in.History) && len(h2) > 0 {
		in2 := *in
		in2.History, in2.Lookups = h2, false
		o2, _ := fkRun(&in2)
		bad := len(o2.Steps) != len(keep)
		for j := 0; !bad && j < len(keep); j++ {
			if fkStepSig(o2.Steps[j]) != base[keep[j]] {
				bad = true
				note += fmt.Sprintf("without the %d re-fed / below-LIB blocks: block #%d of the history delivers %s instead of %s; ", len(in.History)-len(h2), keep[j], fkStepSig(o2.Steps[j]), base[keep[j]])
			}
		}
		if bad {
			res |= 2
			if note == "" {
				note = "run without the noise blocks has another length"
			}
		}
	}
	return res, note
}

// ---- Coq terms ----

func coqFkBlock(b fkBlock) string {
	return fmt.Sprintf("(mkBlock %d %d %d %d)", b.ID, b.Num, b.Parent, b.Lib)
}
func coqFkRef(r fkRef) string { return fmt.Sprintf("(mkR %d %d)", r.ID, r.Num) }
func coqStep(s int) string {
	switch s {
	case 1:
		return "SNew"
	case 2:
		return "SUndo"
	case 16:
		return "SIrr"
	case 32:
		return "SStalled"
	case 17:
		return "SNewIrr"
	}
	return "SStalled" // unreachable for the code under test; flagged by the event comparison anyway
}
func coqFkEvent(e fkEvent) string {
	j := "None"
	if e.Junc != nil {
		j = "(Some " + coqFkRef(*e.Junc) + ")"
	}
	return fmt.Sprintf("(mkEv %s %s %s %s %s %s %d %d)", coqStep(e.Step), coqFkBlock(e.Blk), coqFkRef(e.CBlk), coqFkRef(e.Head), coqFkRef(e.Lib), j, e.Idx, e.Count)
}
func coqResult(r string) string {
	switch r {
	case "ok":
		return "ROk"
	case "handler":
		return "RHandlerErr"
	case "selfparent":
		return "RSelfParent"
	case "panic":
		return "RPanic"
	}
	return "RFuel" // "other": no model outcome corresponds; always a mismatch
}
func coqNList(xs []uint64) string {
	s := make([]string, len(xs))
	for i, x := range xs {
		s[i] = strconv.FormatUint(x, 10)
	}
	return coqList(s)
}
func coqFkCfg(in *fkInput) string {
	fail := "None"
	if in.FailAt >= 0 {
		fail = fmt.Sprintf("(Some %d)", in.FailAt)
	}
	f := in.Filter
	return fmt.Sprintf("(mkCfg %d %s %s %d %s (mkFilter %s %s %s %s) %s)", in.First, coqBool(in.Mode == "incl"), coqBool(in.Mode == "disc"),
		in.Kept, coqBool(in.AllTrig), coqBool(f&1 != 0), coqBool(f&2 != 0), coqBool(f&16 != 0), coqBool(f&32 != 0), fail)
}
func coqFkMode(in *fkInput) string {
	switch in.Mode {
	case "excl":
		return "(LExcl " + coqFkRef(in.LIB) + ")"
	case "incl":
		return "(LIncl " + coqFkRef(in.LIB) + ")"
	}
	return "LNone"
}
func coqFkLook(l *fkLook) string {
	if l == nil {
		return "None"
	}
	low := "None"
	if l.Lowest >= 0 {
		low = fmt.Sprintf("(Some %d)", l.Lowest)
	}
	at := make([]string, len(l.AllAt))
	for i := range l.AllAt {
		if l.AtPanic[i] {
			at[i] = "None"
		} else {
			at[i] = "(Some " + coqNList(l.AllAt[i]) + ")"
		}
	}
	bh := make([]string, len(l.ByHash))
	for i, b := range l.ByHash {
		bh[i] = coqBool(b)
	}
	return fmt.Sprintf("(Some (mkLook %s %s %s %s %s))", coqNList(l.AllIDs), low, coqNList(l.Canon), coqList(at), coqList(bh))
}
func coqFkStep(s fkStepObs) string {
	evs := make([]string, len(s.Events))
	for i, e := range s.Events {
		evs[i] = coqFkEvent(e)
	}
	head := "None"
	if s.HeadOK {
		head = fmt.Sprintf("(Some (%s, %d))", coqFkRef(s.Head), s.HeadLib)
	}
	return fmt.Sprintf("(mkObs %s %s %s %d %s)", coqList(evs), coqResult(s.Result), head, s.HeadNum, coqFkLook(s.Look))
}
func coqFkCase(in *fkInput, obs *fkObs) string {
	hs := make([]string, len(in.History))
	for i, b := range in.History {
		hs[i] = coqFkBlock(b)
	}
	st := make([]string, len(obs.Steps))
	for i, s := range obs.Steps {
		st[i] = coqFkStep(s)
	}
	return fmt.Sprintf("mkFkCase %s %s %s %s %s %s", coqFkCfg(in), coqFkMode(in), coqList(hs), coqList(st), coqNList(obs.QH), coqNList(obs.QI))
}

// W3: the case of C01-C04 = the family's case + the per-event flags + the independence bits (Check/Fk_Props_Check.v, fk_xcase)
func coqFkXCase(in *fkInput, obs *fkObs) string {
	fl := make([]string, len(obs.Steps))
	for i, s := range obs.Steps {
		f := make([]uint64, len(s.Events))
		for j, e := range s.Events {
			f[j] = uint64(e.Flags)
		}
		fl[i] = coqNList(f)
	}
	return fmt.Sprintf("mkFkX (%s) %s %d", coqFkCase(in, obs), coqList(fl), obs.Indep)
}

// ---- generator ----

type fkTree struct {
	blocks []fkBlock
	byID   map[uint64]fkBlock
	lib    fkRef
	nextID uint64
}

func (t *fkTree) add(b fkBlock) {
	t.blocks = append(t.blocks, b)
	t.byID[b.ID] = b
}

// ancestor heights of b inside the tree, nearest first, ending with the starting LIB height if reached
func (t *fkTree) ancestorNums(b fkBlock) []uint64 {
	var out []uint64
	cur := b
	for i := 0; i < 1000; i++ {
		p, ok := t.byID[cur.Parent]
		if !ok {
			if cur.Parent == t.lib.ID && t.lib.ID != 0 {
				out = append(out, t.lib.Num)
			}
			break
		}
		out = append(out, p.Num)
		cur = p
	}
	return out
}

// fkGenTree builds a block forest hanging under the LIB (or under a root in discovery mode).
func fkGenTree(r *Rng, n int, mode string, first uint64, wild bool) *fkTree {
	t := &fkTree{byID: map[uint64]fkBlock{}, nextID: 100}
	base := uint64(r.Intn(4)) + first
	if r.Chance(20) {
		base += uint64(r.Intn(50))
	}
	newID := func() uint64 { t.nextID += uint64(1 + r.Intn(3)); return t.nextID }
	libID := newID()
	t.lib = fkRef{libID, base}
	// a LIB that never moves: every block declares the starting LIB (the class of c01_fixed_lib_partial)
	frozen := (mode == "excl" || mode == "incl") && !wild && r.Chance(15)
	var root fkBlock
	switch mode {
	case "excl", "incl":
		// the LIB block itself exists in the universe (delivered or not is the history's choice)
		root = fkBlock{ID: libID, Num: base, Parent: newID(), Lib: base}
		if base > 0 && r.Chance(50) {
			root.Lib = base - uint64(r.Intn(int(min64(base, 3))+1))
		}
		if frozen {
			root.Lib = base
		}
		t.byID[root.ID] = root // known to the tree for ancestry, added to history optionally
	default:
		root = fkBlock{ID: libID, Num: base, Parent: newID(), Lib: base}
		if base > first && r.Chance(70) {
			root.Lib = base - uint64(1+r.Intn(int(min64(base-first, 3))))
		}
		t.add(root)
	}
	tips := []fkBlock{root}
	all := []fkBlock{root}
	lagBase := 1 + r.Intn(4)
	for len(t.blocks) < n {
		var parent fkBlock
		c := r.Intn(100)
		switch {
		case c < 62:
			parent = tips[len(tips)-1] // extend the most recent tip
		case c < 80:
			parent = tips[r.Intn(len(tips))] // extend some tip
		case c < 94:
			parent = all[r.Intn(len(all))] // fork anywhere
		default:
			// orphan: parent unknown
			o := fkBlock{ID: newID(), Num: base + uint64(r.Intn(12)), Parent: newID(), Lib: base}
			if r.Chance(10) {
				o.Parent = 0
			}
			t.add(o)
			if r.Chance(50) {
				tips = append(tips, o)
				all = append(all, o)
			}
			continue
		}
		skip := uint64(1)
		if r.Chance(12) {
			skip += uint64(1 + r.Intn(3))
		}
		b := fkBlock{ID: newID(), Num: parent.Num + skip, Parent: parent.ID}
		// declared LIB: an ancestor height, non-decreasing along the branch
		anc := append([]uint64{}, t.ancestorNums(fkBlock{Parent: parent.ID})...)
		// ancestorNums(parent-as-child) gives parent's own num first
		cands := []uint64{}
		for _, a := range anc {
			if a >= parent.Lib {
				cands = append(cands, a)
			}
		}
		lag := lagBase
		if r.Chance(25) {
			lag = r.Intn(6)
		}
		switch {
		case wild && r.Chance(30):
			b.Lib = uint64(r.Intn(int(b.Num) + 3))
		case len(cands) == 0:
			b.Lib = parent.Lib
		case r.Chance(8):
			b.Lib = cands[0] // jump: parent becomes final at once
		case lag < len(cands):
			b.Lib = cands[lag]
		default:
			b.Lib = cands[len(cands)-1]
		}
		if b.Lib < parent.Lib && !wild {
			b.Lib = parent.Lib
		}
		if r.Chance(3) {
			b.Lib = b.Num // block declares itself final
			if !wild {
				b.Lib = parent.Lib
			}
		}
		if frozen {
			b.Lib = base
		}
		t.add(b)
		all = append(all, b)
		replaced := false
		for i := range tips {
			if tips[i].ID == parent.ID {
				tips[i] = b
				// move to the end so that "most recent tip" follows it
				tips = append(append(tips[:i:i], tips[i+1:]...), b)
				replaced = true
				break
			}
		}
		if !replaced {
			tips = append(tips, b)
		}
	}
	return t
}

// fkHeldBackGadget (seeded mutant C01-m5): a fork of two or three blocks that stays at or below the head (so it is stored
// but never delivered: the cached longest chain ends in it), followed at once by a block that hangs off an INTERIOR block
// of that fork and skips enough numbers to become the new head. Consecutive arrivals that reuse or invalidate the cached
// chain are otherwise drawn too rarely. The declared LIB is the junction's, which keeps the history in the LIB class.
func fkHeldBackGadget(r *Rng, t *fkTree) []fkBlock {
	linked := func(b fkBlock) (int, bool) {
		cur, d := b, 0
		for i := 0; i < 1000; i++ {
			if cur.ID == t.lib.ID {
				return d, true
			}
			p, ok := t.byID[cur.Parent]
			if !ok {
				return d, cur.Parent == t.lib.ID && t.lib.ID != 0
			}
			cur, d = p, d+1
		}
		return 0, false
	}
	var head fkBlock
	depth := -1
	for _, b := range t.blocks {
		if d, ok := linked(b); ok && (depth < 0 || b.Num > head.Num) {
			head, depth = b, d
		}
	}
	if depth < 2 {
		return nil
	}
	up := 2 + r.Intn(3)
	if up > depth {
		up = depth
	}
	junction := head
	for i := 0; i < up; i++ {
		p, ok := t.byID[junction.Parent]
		if !ok {
			break
		}
		junction = p
	}
	newID := func() uint64 { t.nextID += uint64(1 + r.Intn(3)); return t.nextID }
	m := 2 + r.Intn(2)
	var out []fkBlock
	prev := junction
	for i := 0; i < m; i++ {
		b := fkBlock{ID: newID(), Num: prev.Num + 1, Parent: prev.ID, Lib: junction.Lib}
		out = append(out, b)
		prev = b
	}
	inner := out[r.Intn(m-1)]
	top := head.Num
	if prev.Num > top {
		top = prev.Num
	}
	out = append(out, fkBlock{ID: newID(), Num: top + 1 + uint64(r.Intn(2)), Parent: inner.ID, Lib: junction.Lib})
	if r.Chance(40) {
		// and the stream goes on from there
		last := out[len(out)-1]
		out = append(out, fkBlock{ID: newID(), Num: last.Num + 1, Parent: last.ID, Lib: junction.Lib})
	}
	return out
}

func min64(a, b uint64) uint64 {
	if a < b {
		return a
	}
	return b
}

func fkOrder(r *Rng, t *fkTree, mode string) ([]fkBlock, string) {
	h := append([]fkBlock{}, t.blocks...)
	shape := "inorder"
	switch r.Intn(10) {
	case 0, 1, 2:
	case 3, 4:
		shape = "swaps"
		for k := 0; k < 1+len(h)/4; k++ {
			i := r.Intn(len(h))
			j := i + 1 + r.Intn(3)
			if j < len(h) {
				h[i], h[j] = h[j], h[i]
			}
		}
	case 5:
		shape = "shuffle"
		for i := len(h) - 1; i > 0; i-- {
			j := r.Intn(i + 1)
			h[i], h[j] = h[j], h[i]
		}
	case 6:
		shape = "byheight"
		sort.SliceStable(h, func(i, j int) bool { return h[i].Num < h[j].Num })
	case 7:
		shape = "parent-late"
		// move a few blocks a few positions later (children arrive first)
		for k := 0; k < 1+len(h)/5; k++ {
			i := r.Intn(len(h))
			j := i + 1 + r.Intn(5)
			if j >= len(h) {
				j = len(h) - 1
			}
			b := h[i]
			copy(h[i:j], h[i+1:j+1])
			h[j] = b
		}
	default:
		shape = "swaps"
		for k := 0; k < 2; k++ {
			i := r.Intn(len(h))
			j := r.Intn(len(h))
			h[i], h[j] = h[j], h[i]
		}
	}
	// duplicates
	if r.Chance(60) {
		shape += "+dup"
		for k := 0; k < 1+r.Intn(3); k++ {
			i := r.Intn(len(h))
			j := i + r.Intn(len(h)-i+1)
			h = append(h[:j], append([]fkBlock{h[i]}, h[j:]...)...)
		}
	}
	// the LIB block itself in incl/excl mode
	if mode == "incl" || mode == "excl" {
		lb := t.byID[t.lib.ID]
		p := 30
		if mode == "incl" {
			p = 85
		}
		if r.Chance(p) {
			pos := 0
			if r.Chance(30) {
				pos = r.Intn(len(h) + 1)
			}
			h = append(h[:pos], append([]fkBlock{lb}, h[pos:]...)...)
			shape += "+libblk"
			if r.Chance(40) {
				pos2 := pos + 1 + r.Intn(len(h)-pos)
				h = append(h[:pos2], append([]fkBlock{lb}, h[pos2:]...)...)
			}
		}
	}
	return h, shape
}

var fkFilters = []int{51, 51, 51, 3, 19, 35, 1, 2, 16, 49, 18, 33, 0}

func fkGen(prop string) func(r *Rng, i int, tier string) any {
	return func(r *Rng, i int, tier string) any {
		in := &fkInput{Prop: prop, FailAt: -1}
		switch r.Intn(10) {
		case 0, 1, 2, 3:
			in.Mode = "excl"
		case 4, 5:
			in.Mode = "incl"
		case 6, 7, 8:
			in.Mode = "disc"
		default:
			in.Mode = "none"
		}
		if prop == "C03" && (in.Mode == "disc" || in.Mode == "none") {
			in.Mode = "excl"
		}
		in.First = uint64([]int{0, 0, 1, 1, 2}[r.Intn(5)])
		in.Kept = []int{0, 0, 1, 2, 3, 5}[r.Intn(6)]
		in.AllTrig = r.Chance(30)
		in.Filter = fkFilters[r.Intn(len(fkFilters))]
		if r.Chance(70) {
			in.Filter = 51
		}
		n := 3 + r.Intn(22)
		if tier == "thorough" && r.Chance(30) {
			n = 3 + r.Intn(45)
		}
		wild := r.Chance(8)
		if prop == "C18" {
			in.Lookups = true
			if n > 14 {
				n = 3 + r.Intn(12)
			}
		}
		t := fkGenTree(r, n, in.Mode, in.First, wild)
		in.LIB = t.lib
		var shape string
		in.History, shape = fkOrder(r, t, in.Mode)
		in.Shape = in.Mode + "/" + shape
		if wild {
			in.Shape += "/wildlib"
		}
		if r.Chance(18) {
			in.FailAt = r.Intn(2 * len(in.History))
			if r.Chance(35) {
				// one of the first handler calls: e.g. the New of an inclusive LIB block, whose Irreversible follows at once
				in.FailAt = r.Intn(3)
			}
		}
		if r.Chance(3) && len(in.History) > 2 {
			// a self-parent block
			k := r.Intn(len(in.History))
			in.History[k].Parent = in.History[k].ID
			in.Shape += "/selfparent"
		}
		// drawn last, so that the cases without the gadget are the ones of earlier rounds
		if r.Chance(15) {
			if g := fkHeldBackGadget(r, t); g != nil {
				in.History = append(in.History, g...)
				in.Shape += "/heldback-fork"
			}
		}
		return in
	}
}

// fkCorpus: fixed histories that always run first
func fkCorpus(prop string) func() []any {
	return func() []any {
		lib := fkRef{ID: 100, Num: 4}
		root := fkBlock{ID: 100, Num: 4, Parent: 99, Lib: 3}
		a := fkBlock{ID: 101, Num: 5, Parent: 100, Lib: 4}
		b := fkBlock{ID: 102, Num: 6, Parent: 101, Lib: 4}
		var out []any
		// the handler fails on the very first call; with an inclusive LIB that is the New of the LIB block, whose
		// Irreversible notification must not follow
		for _, f := range []int{51, 3} {
			for _, at := range []int{0, 1} {
				out = append(out, &fkInput{Prop: prop, Mode: "incl", LIB: lib, Kept: 2, Filter: f, FailAt: at,
					History: []fkBlock{root, a, b}, Lookups: prop == "C18", Shape: "incl/corpus-fail-first"})
			}
		}
		// hold-until-LIB discovery starting on the first streamable block
		g := fkBlock{ID: 200, Num: 1, Parent: 199, Lib: 0}
		g2 := fkBlock{ID: 201, Num: 2, Parent: 200, Lib: 1}
		out = append(out, &fkInput{Prop: prop, Mode: "disc", First: 1, Kept: 1, Filter: 51, FailAt: 0,
			History: []fkBlock{g, g2}, Lookups: prop == "C18", Shape: "disc/corpus-fail-first"})
		// discovery mode: a block that declares itself final establishes the LIB (SetLIB does not purge) while lower
		// blocks are still stored: not a "LIB move" (false alarm of the C18 monitor corrected)
		out = append(out, &fkInput{Prop: prop, Mode: "disc", LIB: fkRef{ID: 101, Num: 3}, First: 2, Kept: 1, Filter: 51, FailAt: -1,
			History: []fkBlock{{ID: 105, Num: 4, Parent: 101, Lib: 3}, {ID: 110, Num: 6, Parent: 107, Lib: 6},
				{ID: 101, Num: 3, Parent: 103, Lib: 2}, {ID: 107, Num: 5, Parent: 105, Lib: 3}},
			Lookups: prop == "C18", Shape: "disc/corpus-self-final"})
		// inclusive LIB: a block far below the LIB is stored before the LIB block arrives; the root announcement moves nothing
		out = append(out, &fkInput{Prop: prop, Mode: "incl", LIB: fkRef{ID: 10, Num: 10}, First: 1, Kept: 0, Filter: 51, FailAt: -1,
			History: []fkBlock{{ID: 3, Num: 3, Parent: 2, Lib: 1}, {ID: 10, Num: 10, Parent: 9, Lib: 5}, {ID: 11, Num: 11, Parent: 10, Lib: 10}},
			Lookups: prop == "C18", Shape: "incl/corpus-root-announcement"})
		// known finding C01-refeed-lib-above-self (model witness c01_wild_refeed_witness, replayed on the real Forkable): a block
		// under the first streamable block that declares a LIB number ABOVE its own height makes BlockInCurrentChain return a LIB
		// reference whose number overtakes real heights; block X is dropped unstored, the LIB number later decreases, and X fed
		// again delivers Undo 4, New 5
		out = append(out, &fkInput{Prop: prop, Mode: "excl", LIB: fkRef{ID: 1, Num: 10}, First: 12, Kept: 2, AllTrig: true, Filter: 51, FailAt: -1,
			History: []fkBlock{{ID: 3, Num: 12, Parent: 2, Lib: 10}, {ID: 2, Num: 11, Parent: 1, Lib: 14}, {ID: 5, Num: 13, Parent: 3, Lib: 10},
				{ID: 4, Num: 14, Parent: 3, Lib: 12}, {ID: 5, Num: 13, Parent: 3, Lib: 10}},
			Lookups: prop == "C18", Shape: "excl/corpus-lib-above-self"})
		// W3: a reorganisation that undoes two blocks after the LIB moved, for consumers that do not ask for Irreversible events
		// (filters 3 and 35: c04_b's LIB clauses are off, only the height clauses apply) and for the full filter: random cases meet
		// "filter without Irreversible + LIB moved + undo batch of blocks that declared different LIBs" too rarely
		for _, f := range []int{3, 35, 51} {
			out = append(out, &fkInput{Prop: prop, Mode: "excl", LIB: fkRef{ID: 100, Num: 4}, Kept: 1, Filter: f, FailAt: -1,
				History: []fkBlock{{ID: 101, Num: 5, Parent: 100, Lib: 4}, {ID: 102, Num: 6, Parent: 101, Lib: 5}, {ID: 103, Num: 7, Parent: 102, Lib: 5},
					{ID: 104, Num: 8, Parent: 103, Lib: 6}, {ID: 105, Num: 7, Parent: 102, Lib: 5}, {ID: 106, Num: 9, Parent: 105, Lib: 6},
					{ID: 107, Num: 10, Parent: 106, Lib: 7}},
				Lookups: prop == "C18", Shape: "excl/corpus-reorg-after-lib-move"})
		}
		// seeded mutant C01-m5: 3b, 4b are held back behind head 4a (the cached longest chain ends in them); 6c hangs off the
		// interior held-back block 3b and becomes the head: Undo 4a, Undo 3a, New 3b, New 6c
		for _, m := range []string{"excl", "incl", "disc"} {
			out = append(out, &fkInput{Prop: prop, Mode: m, LIB: fkRef{ID: 100, Num: 1}, Kept: 1, Filter: 51, FailAt: -1,
				History: []fkBlock{{ID: 100, Num: 1, Parent: 99, Lib: 1}, {ID: 102, Num: 2, Parent: 100, Lib: 1}, {ID: 103, Num: 3, Parent: 102, Lib: 1},
					{ID: 104, Num: 4, Parent: 103, Lib: 1}, {ID: 113, Num: 3, Parent: 102, Lib: 1}, {ID: 114, Num: 4, Parent: 113, Lib: 1},
					{ID: 126, Num: 6, Parent: 113, Lib: 1}, {ID: 127, Num: 7, Parent: 126, Lib: 2}},
				Lookups: prop == "C18", Shape: m + "/corpus-heldback-fork"})
		}
		return out
	}
}

func fkExec(prop string) func(raw json.RawMessage) (*Case, error) {
	return func(raw json.RawMessage) (*Case, error) {
		var in fkInput
		if err := json.Unmarshal(raw, &in); err != nil {
			return nil, err
		}
		obs, _ := fkRun(&in)
		cs := &Case{Obs: obs, Coq: coqFkCase(&in, obs)}
		if prop != "C18" {
			if prop == "C03" {
				obs.Indep, obs.IndepNote = fkIndep(&in, obs)
			}
			cs.Coq = coqFkXCase(&in, obs)
		}
		nev, nundo, nirr, nst := 0, 0, 0, 0
		res := "ok"
		for _, s := range obs.Steps {
			nev += len(s.Events)
			for _, e := range s.Events {
				switch e.Step {
				case 2:
					nundo++
				case 16:
					nirr++
				case 32:
					nst++
				}
			}
			if s.Result != "ok" {
				res = s.Result
			}
		}
		cs.Class = in.Shape + "/" + res
		if in.Mode == "none" {
			cs.Class = "nolib/" + cs.Class
		}
		cs.Nontrivial = nev > 0
		cs.Key = string(raw)
		cs.Tags = []string{fmt.Sprintf("events=%d undo=%d irr=%d stalled=%d", nev, nundo, nirr, nst)}
		return cs, nil
	}
}

func init() {
	for _, p := range []string{"C01", "C02", "C03", "C04", "C18"} {
		props[p] = &Prop{Gen: fkGen(p), Exec: fkExec(p), Corpus: fkCorpus(p)}
	}
}
