package main

import (
	"bufio"
	"encoding/json"
	"fmt"
	"math/bits"
	"os"
	"os/exec"
	"runtime"
	"strings"
	"sync"
	"time"

	"github.com/streamingfast/bstream"
)

// C19: block range algebra (range.go).
//
// Split can loop and allocate without bound (it did before the wrap-around fix, and a broken
// tree may do so again), and a runaway goroutine cannot be stopped.  Every Split call therefore
// runs in a child process of this same binary (environment C19_SPLIT_WORKER=1, see init below)
// that watches itself (1 s / 768 MiB heap per case -> reports "hang" and exits) and that the
// parent kills after 6 s without an answer.

type c19Range struct {
	Start uint64  `json:"start"`
	End   *uint64 `json:"end"` // nil = open ended
	ExS   bool    `json:"exs"`
	ExE   bool    `json:"exe"`
}

type c19Input struct {
	Kind string `json:"kind"` // "meth" | "split" | "parse" | "ctor"
	// meth, split
	R     *c19Range `json:"r,omitempty"`
	N     uint64    `json:"n,omitempty"`
	Size  uint64    `json:"size,omitempty"`
	Cand  *c19Range `json:"cand,omitempty"`
	Chunk uint64    `json:"chunk,omitempty"`
	// parse
	Text []byte `json:"text,omitempty"`
	ExS  bool   `json:"exs,omitempty"`
	ExE  bool   `json:"exe,omitempty"`
	// ctor: 0 NewOpenRange(a) 1 NewRangeExcludingEnd(a,b) 2 NewInclusiveRange(a,b) 3 NewRangeContaining(a,b)
	Ctor int    `json:"ctor,omitempty"`
	A    uint64 `json:"a,omitempty"`
	B    uint64 `json:"b,omitempty"`
}

type c19Probe struct {
	N     uint64 `json:"n"`
	InR   bool   `json:"in_r"`
	InAny bool   `json:"in_any"`
}

type c19Obs struct {
	// meth
	Contains  *bool     `json:"contains,omitempty"`
	Reached   *bool     `json:"reached,omitempty"`
	SizeOK    bool      `json:"size_ok,omitempty"`
	SizeV     uint64    `json:"size,omitempty"`
	Next      *c19Range `json:"next,omitempty"`
	Prev      *c19Range `json:"prev,omitempty"`
	IsNext    *bool     `json:"isnext,omitempty"`
	IsNextOwn *bool     `json:"isnext_own,omitempty"`
	// split
	Outcome string     `json:"outcome,omitempty"` // ok | err | panic | hang
	Chunks  []c19Range `json:"chunks,omitempty"`
	Probes  []c19Probe `json:"probes,omitempty"`
	// Split returned more chunks than any correct answer has; Chunks holds the first ones only
	Truncated bool `json:"truncated,omitempty"`
	// parse / ctor
	Range *c19Range `json:"range,omitempty"`
	Panic string    `json:"panic,omitempty"`
}

func (q *c19Range) build() *bstream.Range {
	return bstream.VerifC19NewRange(q.Start, q.End, q.ExS, q.ExE)
}

func c19FromRange(r *bstream.Range) *c19Range {
	if r == nil {
		return nil
	}
	s, e, xs, xe := bstream.VerifC19Fields(r)
	return &c19Range{Start: s, End: e, ExS: xs, ExE: xe}
}

func (q *c19Range) coq() string {
	end := "None"
	if q.End != nil {
		end = fmt.Sprintf("(Some %d)", *q.End)
	}
	return fmt.Sprintf("(mkRange %d %s %s %s)", q.Start, end, coqBool(q.ExS), coqBool(q.ExE))
}

func (q *c19Range) wf() bool { return q.End == nil || *q.End > q.Start }

func (q *c19Range) flags() string {
	f := func(b bool) string {
		if b {
			return "T"
		}
		return "F"
	}
	return f(q.ExS) + f(q.ExE)
}

func (q *c19Range) key() string {
	if q.End == nil {
		return fmt.Sprintf("%d..nil/%s", q.Start, q.flags())
	}
	return fmt.Sprintf("%d..%d/%s", q.Start, *q.End, q.flags())
}

// ---------------------------------------------------------------- Split worker (child process)

const c19MaxChunks = 4096 // inputs whose result would be longer are rejected by Exec

type c19SplitReq struct {
	R     c19Range `json:"r"`
	Chunk uint64   `json:"chunk"`
}

func init() {
	if os.Getenv("C19_SPLIT_WORKER") == "1" {
		c19SplitWorker()
		os.Exit(0)
	}
}

func c19SplitWorker() {
	in := bufio.NewReaderSize(os.Stdin, 1<<16)
	out := bufio.NewWriterSize(os.Stdout, 1<<20)
	var mu sync.Mutex
	active := false
	var started time.Time
	reply := func(o *c19Obs) {
		b, _ := json.Marshal(o)
		out.Write(b)
		out.WriteByte('\n')
		out.Flush()
	}
	go func() {
		var ms runtime.MemStats
		for {
			time.Sleep(5 * time.Millisecond)
			mu.Lock()
			if active {
				runtime.ReadMemStats(&ms)
				if time.Since(started) > time.Second || ms.HeapAlloc > 768<<20 {
					reply(&c19Obs{Outcome: "hang"})
					os.Exit(0)
				}
			}
			mu.Unlock()
		}
	}()
	for {
		line, err := in.ReadBytes('\n')
		if err != nil {
			return
		}
		var req c19SplitReq
		if err := json.Unmarshal(line, &req); err != nil {
			return
		}
		mu.Lock()
		active = true
		started = time.Now()
		mu.Unlock()
		obs := c19DoSplit(&req)
		mu.Lock()
		active = false
		reply(obs)
		mu.Unlock()
	}
}

func c19DoSplit(req *c19SplitReq) (obs *c19Obs) {
	obs = &c19Obs{}
	defer func() {
		if p := recover(); p != nil {
			obs = &c19Obs{Outcome: "panic", Panic: fmt.Sprint(p)}
		}
	}()
	r := req.R.build()
	chunks, err := r.Split(req.Chunk)
	if err != nil {
		obs.Outcome = "err"
		return obs
	}
	obs.Outcome = "ok"
	// no correct answer is longer than width/chunk + 2 chunks: a longer list is reported by its
	// first entries only (it can then neither match the model nor pass the shape check)
	limit := len(chunks)
	if req.R.End != nil && req.Chunk > 0 {
		if max := (*req.R.End-req.R.Start)/req.Chunk + 5; max < uint64(limit) {
			limit = int(max)
			obs.Truncated = true
		}
	}
	for _, c := range chunks[:limit] {
		obs.Chunks = append(obs.Chunks, *c19FromRange(c))
	}
	// probes: around the bounds of the range and around chunk boundaries (first and last 12)
	seen := map[uint64]bool{}
	var ps []uint64
	add := func(v uint64) {
		for _, d := range []uint64{^uint64(0), 0, 1} { // v-1, v, v+1 (wrapping probes are still numbers)
			x := v + d
			if !seen[x] {
				seen[x] = true
				ps = append(ps, x)
			}
		}
	}
	add(req.R.Start)
	if req.R.End != nil {
		add(*req.R.End)
	}
	for i, c := range obs.Chunks {
		if i < 12 || i >= len(obs.Chunks)-12 {
			add(c.Start)
			if c.End != nil {
				add(*c.End)
				add(c.Start + (*c.End-c.Start)/2)
			}
		}
	}
	add(0)
	add(^uint64(0))
	for _, n := range ps {
		any := false
		for _, c := range chunks[:limit] {
			if c.Contains(n) {
				any = true
				break
			}
		}
		obs.Probes = append(obs.Probes, c19Probe{N: n, InR: r.Contains(n), InAny: any})
	}
	return obs
}

// parent side
type c19Worker struct {
	cmd   *exec.Cmd
	stdin *bufio.Writer
	lines chan []byte
}

var c19W *c19Worker

func c19StartWorker() (*c19Worker, error) {
	cmd := exec.Command(os.Args[0])
	cmd.Env = append(os.Environ(), "C19_SPLIT_WORKER=1", "GOMEMLIMIT=3GiB")
	cmd.Stderr = nil
	wp, err := cmd.StdinPipe()
	if err != nil {
		return nil, err
	}
	rp, err := cmd.StdoutPipe()
	if err != nil {
		return nil, err
	}
	if err := cmd.Start(); err != nil {
		return nil, err
	}
	w := &c19Worker{cmd: cmd, stdin: bufio.NewWriter(wp), lines: make(chan []byte, 1)}
	go func() {
		rd := bufio.NewReaderSize(rp, 1<<20)
		for {
			line, err := rd.ReadBytes('\n')
			if err != nil {
				close(w.lines)
				return
			}
			w.lines <- line
		}
	}()
	return w, nil
}

func (w *c19Worker) kill() {
	w.cmd.Process.Kill()
	go w.cmd.Wait()
}

// c19SplitIsolated runs Split in the worker; any failure to answer is the outcome "hang".
func c19SplitIsolated(req *c19SplitReq) (*c19Obs, error) {
	if c19W == nil {
		w, err := c19StartWorker()
		if err != nil {
			return nil, fmt.Errorf("cannot start split worker: %w", err)
		}
		c19W = w
	}
	w := c19W
	b, _ := json.Marshal(req)
	w.stdin.Write(b)
	w.stdin.WriteByte('\n')
	if err := w.stdin.Flush(); err != nil {
		w.kill()
		c19W = nil
		return &c19Obs{Outcome: "hang"}, nil
	}
	select {
	case line, ok := <-w.lines:
		if !ok {
			// worker died (out of memory, fatal error): the call did not come back
			w.kill()
			c19W = nil
			return &c19Obs{Outcome: "hang"}, nil
		}
		var obs c19Obs
		if err := json.Unmarshal(line, &obs); err != nil {
			return nil, err
		}
		if obs.Outcome == "hang" {
			w.kill()
			c19W = nil
		}
		return &obs, nil
	case <-time.After(6 * time.Second):
		w.kill()
		c19W = nil
		return &c19Obs{Outcome: "hang"}, nil
	}
}

// ---------------------------------------------------------------- generators

const c19Max = ^uint64(0)

var c19Heights = []uint64{0, 1, 2, 3, 5, 9, 10, 11, 99, 100, 101, 1000, 1<<31 - 1, 1 << 31, 1<<32 - 1, 1 << 32, 1<<32 + 1,
	1<<63 - 1, 1 << 63, 1<<63 + 1, c19Max - 2, c19Max - 1, c19Max}

func c19Height(r *Rng) uint64 {
	switch r.Intn(10) {
	case 0, 1, 2, 3:
		return r.Pick(c19Heights)
	case 4, 5:
		return uint64(r.Intn(1000))
	case 6:
		return r.U64()
	case 7:
		return c19Max - uint64(r.Intn(1000))
	default:
		return r.U64() >> uint(r.Intn(64))
	}
}

func c19Flags(r *Rng, q *c19Range) { q.ExS, q.ExE = r.Bool(), r.Bool() }

func u64p(v uint64) *uint64 { return &v }

// mostly constructed (start < end or open) ranges; some raw ones with end <= start
func c19GenRange(r *Rng) *c19Range {
	q := &c19Range{}
	c19Flags(r, q)
	switch k := r.Intn(20); {
	case k < 4:
		q.Start = c19Height(r)
	case k < 5: // not a constructed range
		a, b := c19Height(r), c19Height(r)
		if a < b {
			a, b = b, a
		}
		q.Start, q.End = a, u64p(b)
	case k < 12: // start + small or structured width
		q.Start = c19Height(r)
		w := []uint64{1, 2, 3, 5, 10, 100, 1 << 32, 1 << 63, uint64(r.Intn(50) + 1), r.U64() >> uint(r.Intn(64))}[r.Intn(10)]
		if w == 0 {
			w = 1
		}
		if q.Start == c19Max {
			q.Start--
		}
		e, carry := bits.Add64(q.Start, w, 0)
		if carry != 0 {
			e = c19Max
		}
		q.End = u64p(e)
	default:
		a, b := c19Height(r), c19Height(r)
		if a == b {
			if b == c19Max {
				a--
			} else {
				b++
			}
		}
		if a > b {
			a, b = b, a
		}
		q.Start, q.End = a, u64p(b)
	}
	return q
}

func c19GenMeth(r *Rng) c19Input {
	q := c19GenRange(r)
	in := c19Input{Kind: "meth", R: q}
	// n: around the bounds, or anywhere
	around := []uint64{q.Start - 1, q.Start, q.Start + 1, 0, c19Max}
	if q.End != nil {
		e := *q.End
		around = append(around, e-2, e-1, e, e+1, q.Start+(e-q.Start)/2)
	}
	if r.Chance(75) {
		in.N = r.Pick(around)
	} else {
		in.N = c19Height(r)
	}
	// size: small, the range's own width, the edge of the 64-bit space
	base := q.Start
	if q.End != nil {
		base = *q.End
	}
	sizes := []uint64{0, 1, 5, 100, uint64(r.Intn(1000)), c19Max - base, c19Max - base + 1, c19Max - base - 1, q.Start, q.Start + 1, 1 << 63, c19Height(r)}
	if q.End != nil {
		sizes = append(sizes, *q.End-q.Start)
	}
	in.Size = r.Pick(sizes)
	// candidate for IsNext: the range Next describes (as a value, a different allocation) or a neighbour of it
	var c c19Range
	if q.End != nil {
		c = c19Range{Start: *q.End, End: u64p(*q.End + in.Size), ExS: q.ExS, ExE: q.ExE}
	} else {
		c = c19Range{Start: q.Start + in.Size, ExS: q.ExS, ExE: q.ExE}
	}
	switch r.Intn(12) {
	case 0:
		c.ExS = !c.ExS
	case 1:
		c.ExE = !c.ExE
	case 2:
		c.Start++
	case 3:
		c.Start--
	case 4:
		if c.End != nil {
			*c.End++
		} else {
			c.End = u64p(c.Start + in.Size)
		}
	case 5:
		if c.End != nil {
			c.End = nil
		} else {
			c.End = u64p(c19Height(r))
		}
	case 6:
		c = *c19GenRange(r)
	case 7:
		c = *q
	}
	in.Cand = &c
	return in
}

func c19GenSplit(r *Rng) c19Input {
	in := c19Input{Kind: "split"}
	q := &c19Range{}
	c19Flags(r, q)
	chunk := []uint64{1, 2, 3, 5, 7, 10, 100, 1000, 1 << 31, 1 << 32, 1<<32 + 1, 1 << 62, 1<<63 - 1, 1 << 63, 1<<63 + 1, c19Max - 1, c19Max,
		uint64(r.Intn(100) + 1), r.U64()>>uint(r.Intn(64)) | 1, r.U64()>>uint(r.Intn(64)) | 1}[r.Intn(20)]
	in.Chunk = chunk
	in.R = q
	k := r.Intn(100)
	switch {
	case k < 4: // open ended
		q.Start = c19Height(r)
		if r.Chance(20) {
			in.Chunk = 0
		}
		return in
	case k < 7: // chunk size 0 (outside the property: the code divides by it)
		*q = *c19GenRange(r)
		c19Flags(r, q)
		in.Chunk = 0
		return in
	case k < 10: // raw range with end <= start: only model correspondence; keep the wrapped width/chunk small
		a, b := c19Height(r), c19Height(r)
		if a < b {
			a, b = b, a
		}
		q.Start, q.End = a, u64p(b)
		in.Chunk = (1 << 58) + r.U64()>>6
		return in
	}
	// number of full chunks and a remainder
	nch := uint64(r.Intn(6))
	if r.Chance(30) {
		nch = uint64(r.Intn(40))
	}
	if r.Chance(4) {
		nch = uint64(r.Intn(600))
	}
	rem := []uint64{0, 0, 1, chunk - 1, chunk / 2, r.U64() % chunk}[r.Intn(6)]
	hi, width := bits.Mul64(nch, chunk)
	var carry uint64
	width, carry = bits.Add64(width, rem, 0)
	if hi != 0 || carry != 0 {
		width = c19Max
	}
	if width == 0 {
		width = 1
	}
	// start: anywhere, on/around a multiple of chunk, or placed so that the range ends at the top of the 64-bit space
	switch r.Intn(6) {
	case 0:
		q.Start = c19Height(r)
	case 1:
		q.Start = (c19Height(r) / chunk) * chunk
	case 2:
		q.Start = (c19Height(r)/chunk)*chunk + []uint64{1, chunk - 1, chunk / 2}[r.Intn(3)]%chunk
	case 3:
		q.Start = uint64(r.Intn(30))
	default: // the wrap zone: end within one chunk of 2^64-1
		top := c19Max - []uint64{0, 0, 1, 2, uint64(r.Intn(1000)), r.U64() % chunk}[r.Intn(6)]
		if top > width {
			q.Start = top - width
		} else {
			q.Start = 0
		}
	}
	e, c := bits.Add64(q.Start, width, 0)
	if c != 0 {
		e = c19Max
	}
	if e <= q.Start {
		if q.Start == c19Max {
			q.Start--
		}
		e = q.Start + 1
	}
	q.End = u64p(e)
	if (e-q.Start)/chunk > c19MaxChunks-8 {
		// only possible through the clamp above with a small chunk: shrink the range
		q.Start = e - chunk*uint64(r.Intn(50)+1)
		if q.Start >= e {
			q.Start = e - 1
		}
	}
	return in
}

var c19Seps = []string{"-", ":", " - ", " : ", "--", ":-", " -", "- ", "::"}

func c19Num(r *Rng, v uint64) string {
	s := fmt.Sprintf("%d", v)
	switch r.Intn(14) {
	case 0: // thousands separators
		var sb strings.Builder
		for i, ch := range s {
			if i > 0 && (len(s)-i)%3 == 0 {
				sb.WriteByte(',')
			}
			sb.WriteRune(ch)
		}
		return sb.String()
	case 1:
		return "00" + s
	case 2:
		return "+" + s
	case 3:
		return " " + s + " "
	case 4:
		return strings.Join(strings.Split(s, ""), "_")
	case 5:
		return "#" + s
	case 6:
		return s + "\xff"
	case 7:
		return "é" + s + "٣"
	}
	return s
}

func c19ParseHeight(r *Rng) uint64 {
	switch r.Intn(10) {
	case 0:
		return r.Pick([]uint64{1<<63 - 2, 1<<63 - 1, 1 << 63, 1<<63 + 1, c19Max})
	case 1:
		return r.Pick(c19Heights)
	case 2:
		return r.U64() >> uint(r.Intn(64))
	default:
		return uint64(r.Intn(2000))
	}
}

func c19GenParse(r *Rng, i int) c19Input {
	in := c19Input{Kind: "parse", ExS: r.Bool(), ExE: r.Bool()}
	a, b := c19ParseHeight(r), c19ParseHeight(r)
	if r.Chance(60) && a > b {
		a, b = b, a
	}
	if r.Chance(5) {
		b = a
	}
	var s string
	switch k := r.Intn(100); {
	case k < 30: // plain decimal a-b / a:b (the well-formed inputs)
		s = fmt.Sprintf("%d%s%d", a, c19Seps[r.Intn(2)], b)
	case k < 55: // decorated
		s = c19Num(r, a) + c19Seps[r.Intn(len(c19Seps))] + c19Num(r, b)
	case k < 70: // fewer than two bounds
		s = []string{"5", "5-", "-5", "-", ":", "--", ":-:", " ", ",", fmt.Sprint(a), fmt.Sprint(a) + "-", ":" + fmt.Sprint(b), "- -", "abc", "\xff", ",-", "-,"}[r.Intn(17)]
	case k < 78: // an empty or non-numeric bound
		s = []string{",-5", "5-,", " - ", "a-b", "5-b", "a-5", "0x10-0x20", "1e3-2e3", "٣-٤", "5- ", " :7", "5:\xfe", "_-_"}[r.Intn(13)]
	case k < 85: // more than two bounds
		s = fmt.Sprintf("%d-%d-%d", a, b, c19ParseHeight(r))
		if r.Bool() {
			s = fmt.Sprintf("%d:%d:x:%d", a, b, a)
		}
	case k < 90: // too large
		s = []string{"9223372036854775808-9223372036854775809", "1-9223372036854775808", "18446744073709551616-5", "1-99999999999999999999999999", "0-9223372036854775807", "9223372036854775806-9223372036854775807"}[r.Intn(6)]
	default: // random bytes
		bs := make([]byte, r.Intn(24))
		for j := range bs {
			const alphabet = "0123456789-: ,+_ax\xff\xc3\xa9\x00"
			bs[j] = alphabet[r.Intn(len(alphabet))]
			if r.Chance(10) {
				bs[j] = byte(r.Intn(256))
			}
		}
		s = string(bs)
	}
	in.Text = []byte(s)
	return in
}

func c19GenCtor(r *Rng) c19Input {
	in := c19Input{Kind: "ctor", Ctor: r.Intn(4)}
	in.A = c19Height(r)
	switch in.Ctor {
	case 1, 2:
		in.B = c19Height(r)
		if r.Chance(30) {
			in.B = in.A + []uint64{0, 1, c19Max}[r.Intn(3)]
		}
	case 3: // NewRangeContaining(blockNum, size)
		in.B = []uint64{0, 1, 2, 10, 100, 1000, 1 << 32, 1 << 63, c19Max, uint64(r.Intn(500)), c19Height(r)}[r.Intn(11)]
	}
	return in
}

func c19Gen(r *Rng, i int, tier string) any {
	switch i % 10 {
	case 0, 1, 2:
		return c19GenMeth(r)
	case 3, 4, 5:
		return c19GenSplit(r)
	case 6, 7, 8:
		return c19GenParse(r, i)
	default:
		return c19GenCtor(r)
	}
}

// ---------------------------------------------------------------- executor

func c19Exec(raw json.RawMessage) (cs *Case, err error) {
	var in c19Input
	if err := json.Unmarshal(raw, &in); err != nil {
		return nil, err
	}
	switch in.Kind {
	case "meth":
		return c19ExecMeth(&in)
	case "split":
		return c19ExecSplit(&in)
	case "parse":
		return c19ExecParse(&in)
	case "ctor":
		return c19ExecCtor(&in)
	}
	return nil, fmt.Errorf("unknown kind %q", in.Kind)
}

func c19Shape(q *c19Range) string {
	if q.End == nil {
		return "open"
	}
	if !q.wf() {
		return "raw"
	}
	return "bounded"
}

func c19ExecMeth(in *c19Input) (*Case, error) {
	if in.R == nil || in.Cand == nil {
		return nil, fmt.Errorf("meth input needs r and cand")
	}
	obs := &c19Obs{}
	func() {
		defer func() {
			if p := recover(); p != nil {
				obs.Panic = fmt.Sprint(p)
			}
		}()
		r := in.R.build()
		c, re := r.Contains(in.N), r.ReachedEndBlock(in.N)
		obs.Contains, obs.Reached = &c, &re
		if v, err := r.Size(); err == nil {
			obs.SizeOK, obs.SizeV = true, v
		}
		obs.Next = c19FromRange(r.Next(in.Size))
		obs.Prev = c19FromRange(r.Previous(in.Size))
		isn := r.IsNext(in.Cand.build(), in.Size)
		obs.IsNext = &isn
		own := r.IsNext(c19FromRange(r.Next(in.Size)).build(), in.Size)
		obs.IsNextOwn = &own
	}()
	cs := &Case{Obs: obs, Nontrivial: true}
	cs.Class = fmt.Sprintf("meth/%s/%s", c19Shape(in.R), in.R.flags())
	// Next / Previous leave the 64-bit heights: end (or start, open-ended) + size overflows, or size > start
	top := in.R.Start
	if in.R.End != nil {
		top = *in.R.End
	}
	if top+in.Size < top || in.Size > in.R.Start {
		cs.Class += "/wraps"
	}
	cs.Key = fmt.Sprintf("m:%s:%d:%d:%s", in.R.key(), in.N, in.Size, in.Cand.key())
	if obs.Panic != "" {
		cs.Class += "/panic"
		dummy := "(mkRange 0 None false false)"
		cs.Coq = fmt.Sprintf("KMeth %s %d %d %s false false None %s %s false false true", in.R.coq(), in.N, in.Size, in.Cand.coq(), dummy, dummy)
		return cs, nil
	}
	if obs.IsNext != nil && *obs.IsNext {
		cs.Class += "/isnext"
	}
	cs.Coq = fmt.Sprintf("KMeth %s %d %d %s %s %s %s %s %s %s %s false", in.R.coq(), in.N, in.Size, in.Cand.coq(),
		coqBool(*obs.Contains), coqBool(*obs.Reached), coqOpt(obs.SizeOK, fmt.Sprint(obs.SizeV)),
		obs.Next.coq(), obs.Prev.coq(), coqBool(*obs.IsNext), coqBool(*obs.IsNextOwn))
	return cs, nil
}

func c19ExecSplit(in *c19Input) (*Case, error) {
	if in.R == nil {
		return nil, fmt.Errorf("split input needs r")
	}
	if in.R.End != nil && in.Chunk > 0 && (*in.R.End-in.R.Start)/in.Chunk > c19MaxChunks {
		return nil, fmt.Errorf("split input rejected: more than %d chunks expected", c19MaxChunks)
	}
	obs, err := c19SplitIsolated(&c19SplitReq{R: *in.R, Chunk: in.Chunk})
	if err != nil {
		return nil, err
	}
	cs := &Case{Obs: obs}
	shape := c19Shape(in.R)
	switch {
	case shape == "bounded" && in.Chunk == 0:
		shape = "chunk0"
	case shape == "bounded":
		cs.Nontrivial = true
		if *in.R.End-in.R.Start <= in.Chunk {
			shape = "single"
		} else {
			shape = "multi"
			// the zone where `currentStart + chunkSize` can exceed 2^64-1
			if _, c := bits.Add64(*in.R.End-1, in.Chunk, 0); c != 0 {
				shape = "multi-wrapzone"
			}
		}
	}
	cs.Class = fmt.Sprintf("split/%s/%s", in.R.flags(), shape)
	cs.Key = fmt.Sprintf("s:%s:%d", in.R.key(), in.Chunk)
	var o string
	switch obs.Outcome {
	case "ok":
		items := make([]string, len(obs.Chunks))
		for i := range obs.Chunks {
			items[i] = obs.Chunks[i].coq()
		}
		o = "(OSplit " + coqList(items) + ")"
	case "err":
		o = "OSplitErr"
	case "panic":
		o = "OSplitPanic"
		cs.Class += "/panic"
	default:
		obs.Outcome = "hang"
		o = "OSplitHang"
		cs.Class += "/hang"
	}
	ps := make([]string, len(obs.Probes))
	for i, p := range obs.Probes {
		ps[i] = fmt.Sprintf("(%d, (%s, %s))", p.N, coqBool(p.InR), coqBool(p.InAny))
	}
	cs.Coq = fmt.Sprintf("KSplit %s %d %s %s", in.R.coq(), in.Chunk, o, coqList(ps))
	return cs, nil
}

func c19Fields(s string) int {
	return len(strings.FieldsFunc(s, func(r rune) bool { return r == ':' || r == '-' }))
}

func c19ExecParse(in *c19Input) (*Case, error) {
	obs := &c19Obs{}
	outcome := "err"
	func() {
		defer func() {
			if p := recover(); p != nil {
				obs.Panic = fmt.Sprint(p)
				outcome = "panic"
			}
		}()
		var opts []bstream.RangeOptions
		if in.ExS {
			opts = append(opts, bstream.WithExclusiveStart())
		}
		if in.ExE {
			opts = append(opts, bstream.WithExclusiveEnd())
		}
		r, err := bstream.ParseRange(string(in.Text), opts...)
		if err == nil {
			if r == nil {
				panic("ParseRange returned nil, nil")
			}
			obs.Range = c19FromRange(r)
			outcome = "ok"
		}
	}()
	obs.Outcome = outcome
	nf := c19Fields(string(in.Text))
	if nf > 3 {
		nf = 3
	}
	cs := &Case{Obs: obs, Nontrivial: len(in.Text) > 0, Key: "p:" + string(in.Text) + fmt.Sprint(in.ExS, in.ExE)}
	cs.Class = fmt.Sprintf("parse/fields%d/%s", nf, outcome)
	var o string
	switch outcome {
	case "ok":
		o = "(ParseOk " + obs.Range.coq() + ")"
	case "err":
		o = "ParseErr"
	default:
		o = "ParsePanic"
	}
	cs.Coq = fmt.Sprintf("KParse %s %s %s %s", coqBytes(string(in.Text)), coqBool(in.ExS), coqBool(in.ExE), o)
	return cs, nil
}

func c19ExecCtor(in *c19Input) (*Case, error) {
	obs := &c19Obs{}
	outcome := "err"
	func() {
		defer func() {
			if p := recover(); p != nil {
				obs.Panic = fmt.Sprint(p)
				outcome = "panic"
			}
		}()
		var r *bstream.Range
		var err error
		switch in.Ctor {
		case 0:
			r = bstream.NewOpenRange(in.A)
		case 1:
			r = bstream.NewRangeExcludingEnd(in.A, in.B)
		case 2:
			r = bstream.NewInclusiveRange(in.A, in.B)
		default:
			r, err = bstream.NewRangeContaining(in.A, in.B)
		}
		if err == nil {
			obs.Range = c19FromRange(r)
			outcome = "ok"
		}
	}()
	obs.Outcome = outcome
	kind := in.Ctor
	if kind < 0 || kind > 3 {
		kind = 3
	}
	cs := &Case{Obs: obs, Nontrivial: true, Key: fmt.Sprintf("c:%d:%d:%d", kind, in.A, in.B)}
	cs.Class = fmt.Sprintf("ctor/%s/%s", []string{"open", "excluding-end", "inclusive", "containing"}[kind], outcome)
	var o string
	switch outcome {
	case "ok":
		o = "(CtorOk " + obs.Range.coq() + ")"
	case "err":
		o = "CtorErr"
	default:
		o = "CtorPanic"
	}
	cs.Coq = fmt.Sprintf("KCtor %d %d %d %s", kind, in.A, in.B, o)
	return cs, nil
}

func init() {
	rg := func(s uint64, e *uint64, xs, xe bool) *c19Range { return &c19Range{Start: s, End: e, ExS: xs, ExE: xe} }
	props["C19"] = &Prop{Gen: c19Gen, Exec: c19Exec, Corpus: func() []any {
		return []any{
			// the three repaired defects
			c19Input{Kind: "parse", Text: []byte("5")},
			c19Input{Kind: "parse", Text: []byte("5-")},
			c19Input{Kind: "parse", Text: []byte("-")},
			c19Input{Kind: "meth", R: rg(10, u64p(15), false, false), N: 12, Size: 5, Cand: rg(15, u64p(20), false, false)},
			c19Input{Kind: "split", R: rg(0, u64p(c19Max), false, false), Chunk: 1 << 63},
			c19Input{Kind: "split", R: rg(5, u64p(c19Max), true, false), Chunk: 1 << 63},
			c19Input{Kind: "split", R: rg(c19Max-10, u64p(c19Max), false, true), Chunk: 4},
			// known finding: both bounds exclusive, more than one chunk
			c19Input{Kind: "split", R: rg(10, u64p(20), true, true), Chunk: 5},
			// the rows of range_test.go
			c19Input{Kind: "split", R: rg(10, u64p(25), false, false), Chunk: 5},
			c19Input{Kind: "split", R: rg(10, u64p(28), true, false), Chunk: 5},
			c19Input{Kind: "split", R: rg(10, nil, false, false), Chunk: 5},
			c19Input{Kind: "parse", Text: []byte("1,000 - 9,000")},
			c19Input{Kind: "parse", Text: []byte("100 : 50")},
			c19Input{Kind: "parse", Text: []byte("")},
			c19Input{Kind: "ctor", Ctor: 3, A: 10, B: 20},
			c19Input{Kind: "ctor", Ctor: 3, A: c19Max, B: 2},
			c19Input{Kind: "ctor", Ctor: 2, A: 5, B: 5},
			c19Input{Kind: "meth", R: rg(10, nil, true, false), N: 10, Size: 5, Cand: rg(15, nil, true, false)},
		}
	}}
}
