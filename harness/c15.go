package main

import (
	"bytes"
	"context"
	"crypto/sha1"
	"encoding/json"
	"errors"
	"fmt"
	"io"
	"sort"
	"strings"
	"sync"
	"time"

	"github.com/streamingfast/bstream"
	pbbstream "github.com/streamingfast/bstream/pb/sf/bstream/v1"
	"github.com/streamingfast/bstream/transform"
	"github.com/streamingfast/dstore"
	"go.uber.org/zap"
)

// C15: block indexer -> index files -> GenericBlockIndexProvider -> FileSource.

type c15Blk struct {
	Num  uint64   `json:"num"`
	Keys []string `json:"keys,omitempty"`
}
type c15Ix struct {
	Size  uint64  `json:"size"`
	Start *uint64 `json:"start,omitempty"` // WithDefinedStartBlock
	Upto  int     `json:"upto"`            // number of chain blocks fed to this indexer
}
type c15Item struct {
	PS  bool   `json:"ps,omitempty"` // false: Get(A); true: GetByPrefixAndSuffix(A, B)
	A   string `json:"a"`
	B   string `json:"b,omitempty"`
}
type c15Input struct {
	Kind     string      `json:"kind"` // "prov" | "stream"
	FSB      uint64      `json:"fsb"`
	Chain    []c15Blk    `json:"chain"`
	Ixs      []c15Ix     `json:"ixs"`
	Possible []uint64    `json:"possible"`
	Filter   []c15Item   `json:"filter"`
	Reqs     [][2]uint64 `json:"reqs,omitempty"` // prov: (base, bundleSize)
	Bundle   uint64      `json:"bundle,omitempty"`
	Start    uint64      `json:"start,omitempty"`
	Stop     uint64      `json:"stop,omitempty"`
	WL       []uint64    `json:"wl,omitempty"`
	Progress bool        `json:"progress,omitempty"` // timeBetweenProgressBlocks = 0 instead of huge
}
type c15File struct {
	Low  uint64              `json:"low"`
	Size uint64              `json:"size"`
	KV   map[string][]uint64 `json:"kv,omitempty"`
}
type c15Res struct {
	Outcome string   `json:"o"` // "ok" | "err" | "panic"
	Blocks  []uint64 `json:"b,omitempty"`
}
type c15Obs struct {
	IxPanic []bool    `json:"ixpanic"`
	Files   []c15File `json:"files"`
	Res     []c15Res  `json:"res,omitempty"`
	Deliv   []uint64  `json:"deliv,omitempty"`
	End     string    `json:"end,omitempty"` // stop | wait | other | hang | panic
	Wait    uint64    `json:"wait,omitempty"`
	Note    string    `json:"note,omitempty"`
}

// ---------------------------------------------------------------- running the real code

func c15BuildIndex(in *c15Input) (*dstore.MockStore, []bool) {
	st := dstore.NewMockStore(nil)
	st.SetOverwrite(true)
	panics := make([]bool, len(in.Ixs))
	for i, ix := range in.Ixs {
		func() {
			defer func() {
				if p := recover(); p != nil {
					panics[i] = true
				}
			}()
			var opts []transform.Option
			if ix.Start != nil {
				opts = append(opts, transform.WithDefinedStartBlock(*ix.Start))
			}
			indexer := transform.NewBlockIndexer(st, ix.Size, "t", opts...)
			n := ix.Upto
			if n > len(in.Chain) {
				n = len(in.Chain)
			}
			for _, b := range in.Chain[:n] {
				indexer.Add(b.Keys, b.Num)
			}
		}()
	}
	return st, panics
}

func c15ListFiles(st *dstore.MockStore, withContent bool) ([]c15File, error) {
	var names []string
	if err := st.Walk(context.Background(), "", func(name string) error { names = append(names, name); return nil }); err != nil {
		return nil, err
	}
	sort.Strings(names)
	var out []c15File
	for _, name := range names {
		size, low, short, err := transform.VerifParseIndexFilename(name)
		if err != nil || short != "t" {
			return nil, fmt.Errorf("unexpected file %q in index store", name)
		}
		f := c15File{Low: low, Size: size}
		if withContent {
			r, err := st.OpenObject(context.Background(), name)
			if err != nil {
				return nil, err
			}
			kv, err := transform.VerifReadIndexFile(r)
			if err != nil {
				return nil, fmt.Errorf("index file %q does not decode: %w", name, err)
			}
			f.KV = kv
		}
		out = append(out, f)
	}
	return out, nil
}

// the filterFunc of a "key filter": OR of the bitmaps of the wanted keys, ToArray of the union
func c15FilterFunc(items []c15Item) func(transform.BitmapGetter) []uint64 {
	return func(g transform.BitmapGetter) []uint64 {
		acc := g.Get("\x00never\x00")
		acc = nil
		for _, it := range items {
			bm := g.Get(it.A)
			if it.PS {
				bm = g.GetByPrefixAndSuffix(it.A, it.B)
			}
			if bm == nil {
				continue
			}
			if acc == nil {
				acc = bm.Clone()
			} else {
				acc.Or(bm)
			}
		}
		if acc == nil {
			return nil
		}
		return acc.ToArray()
	}
}

func c15BlockID(n uint64) string { return fmt.Sprintf("%08xa", n) }

type c15Reader struct {
	*bytes.Reader
	onClose func()
}

func (r *c15Reader) Close() error { r.onClose(); return nil }

func c15RunSource(in *c15Input, prov bstream.BlockIndexProvider, obs *c15Obs) {
	// cut the chain into merged bundle files
	contents := map[string][]byte{}
	bufs := map[uint64]*bytes.Buffer{}
	writers := map[uint64]*bstream.DBinBlockWriter{}
	prevID, prevNum := "", uint64(0)
	for _, b := range in.Chain {
		base := b.Num - b.Num%in.Bundle
		if bufs[base] == nil {
			bufs[base] = &bytes.Buffer{}
			w, _ := bstream.NewDBinBlockWriter(bufs[base])
			writers[base] = w
		}
		blk := bstream.TestBlockWithNumbers(c15BlockID(b.Num), prevID, b.Num, prevNum)
		blk.Number = b.Num
		if err := writers[base].Write(blk); err != nil {
			obs.End, obs.Note = "other", "cannot write bundle: "+err.Error()
			return
		}
		prevID, prevNum = blk.Id, b.Num
	}
	for base, buf := range bufs {
		contents[fmt.Sprintf("%010d", base)] = buf.Bytes()
	}

	var mu sync.Mutex
	miss := map[string]int{}
	positives := map[string]bool{}
	closed := map[string]bool{}
	waitCh := make(chan string, 1)
	bs := dstore.NewMockStore(nil)
	bs.FileExistsFunc = func(ctx context.Context, name string) (bool, error) {
		mu.Lock()
		defer mu.Unlock()
		if _, ok := contents[name]; ok {
			positives[name] = true
			return true, nil
		}
		miss[name]++
		if miss[name] == 3 { // two probes at most precede the first real check: the third miss is a retry
			select {
			case waitCh <- name:
			default:
			}
		}
		return false, nil
	}
	bs.OpenObjectFunc = func(ctx context.Context, name string) (io.ReadCloser, error) {
		c, ok := contents[name]
		if !ok {
			return nil, io.EOF
		}
		return &c15Reader{Reader: bytes.NewReader(c), onClose: func() { mu.Lock(); closed[name] = true; mu.Unlock() }}, nil
	}

	var deliv []uint64
	handler := bstream.HandlerFunc(func(blk *pbbstream.Block, obj interface{}) error {
		mu.Lock()
		deliv = append(deliv, blk.Number)
		mu.Unlock()
		return nil
	})
	delay := time.Hour
	if in.Progress {
		delay = 0
	}
	opts := []bstream.FileSourceOption{
		bstream.FileSourceWithBundleSize(in.Bundle),
		bstream.FileSourceWithRetryDelay(time.Millisecond),
		bstream.FileSourceWithBlockIndexProvider(prov),
		bstream.VerifFileSourceWithProgressDelay(delay),
	}
	if in.Stop != 0 {
		opts = append(opts, bstream.FileSourceWithStopBlock(in.Stop))
	}
	if len(in.WL) > 0 {
		opts = append(opts, bstream.FileSourceWithWhitelistedBlocks(in.WL...))
	}
	fs := bstream.NewFileSource(bs, in.Start, handler, zap.NewNop(), opts...)
	done := make(chan struct{})
	go func() {
		defer close(done)
		fs.Run()
	}()
	snapshot := func() {
		mu.Lock()
		obs.Deliv = append([]uint64(nil), deliv...)
		mu.Unlock()
	}
	watchdog := time.After(8 * time.Second)
	select {
	case <-done:
		snapshot()
		if errors.Is(fs.Err(), bstream.ErrStopBlockReached) {
			obs.End = "stop"
		} else {
			obs.End = "other"
		}
	case name := <-waitCh:
		// the reader retries a missing bundle forever: wait until every file announced below it has
		// been read to its end and closed, then let the last handler call finish
		deadline := time.Now().Add(2 * time.Second)
		for {
			mu.Lock()
			settled := true
			for p := range positives {
				if p < name && !closed[p] {
					settled = false
				}
			}
			mu.Unlock()
			if settled || time.Now().After(deadline) {
				break
			}
			time.Sleep(500 * time.Microsecond)
		}
		time.Sleep(5 * time.Millisecond)
		snapshot()
		obs.End = "wait"
		fmt.Sscanf(name, "%d", &obs.Wait)
		fs.Shutdown(nil)
		select {
		case <-done:
		case <-time.After(2 * time.Second):
		}
	case <-watchdog:
		snapshot()
		obs.End = "hang"
		fs.Shutdown(nil)
	}
}

func c15Exec(raw json.RawMessage) (cs *Case, err error) {
	var in c15Input
	if err := json.Unmarshal(raw, &in); err != nil {
		return nil, err
	}
	obs := &c15Obs{}
	old := bstream.GetProtocolFirstStreamableBlock
	bstream.GetProtocolFirstStreamableBlock = in.FSB
	defer func() { bstream.GetProtocolFirstStreamableBlock = old }()

	st, panics := c15BuildIndex(&in)
	obs.IxPanic = panics
	files, err := c15ListFiles(st, in.Kind == "prov")
	if err != nil {
		return nil, err
	}
	obs.Files = files
	prov := transform.NewGenericBlockIndexProvider(st, "t", in.Possible, c15FilterFunc(in.Filter))
	switch in.Kind {
	case "prov":
		for _, rq := range in.Reqs {
			var r c15Res
			func() {
				defer func() {
					if p := recover(); p != nil {
						r = c15Res{Outcome: "panic"}
					}
				}()
				out, err := prov.BlocksInRange(rq[0], rq[1])
				if err != nil {
					r = c15Res{Outcome: "err"}
				} else {
					r = c15Res{Outcome: "ok", Blocks: out}
				}
			}()
			obs.Res = append(obs.Res, r)
		}
	case "stream":
		if in.Bundle == 0 {
			return nil, fmt.Errorf("bundle size 0 is never generated (it crashes the process in a library goroutine)")
		}
		func() {
			defer func() {
				if p := recover(); p != nil {
					obs.End = "panic"
				}
			}()
			c15RunSource(&in, prov, obs)
		}()
	default:
		return nil, fmt.Errorf("unknown kind %q", in.Kind)
	}
	return c15Case(&in, obs), nil
}

// ---------------------------------------------------------------- Coq terms and classes

func coqNs(xs []uint64) string {
	items := make([]string, len(xs))
	for i, x := range xs {
		items[i] = fmt.Sprintf("%d", x)
	}
	return coqList(items)
}

func c15CoqChain(chain []c15Blk) string {
	items := make([]string, len(chain))
	for i, b := range chain {
		ks := make([]string, len(b.Keys))
		for j, k := range b.Keys {
			ks[j] = coqBytes(k)
		}
		items[i] = fmt.Sprintf("(%s, %d)", coqList(ks), b.Num)
	}
	return coqList(items)
}

func c15CoqIxs(ixs []c15Ix) string {
	items := make([]string, len(ixs))
	for i, ix := range ixs {
		s := "None"
		if ix.Start != nil {
			s = fmt.Sprintf("(Some %d)", *ix.Start)
		}
		items[i] = fmt.Sprintf("(%d, %s, %d)", ix.Size, s, ix.Upto)
	}
	return coqList(items)
}

func c15CoqFilter(f []c15Item) string {
	items := make([]string, len(f))
	for i, it := range f {
		if it.PS {
			items[i] = fmt.Sprintf("FPreSuf %s %s", coqBytes(it.A), coqBytes(it.B))
		} else {
			items[i] = fmt.Sprintf("FExact %s", coqBytes(it.A))
		}
	}
	return coqList(items)
}

func c15CoqBools(bs []bool) string {
	items := make([]string, len(bs))
	for i, b := range bs {
		items[i] = coqBool(b)
	}
	return coqList(items)
}

func c15Ascending(chain []c15Blk) bool {
	for i := 1; i < len(chain); i++ {
		if chain[i].Num <= chain[i-1].Num {
			return false
		}
	}
	return true
}

func c15Valid(in *c15Input) bool {
	if !c15Ascending(in.Chain) {
		return false
	}
	for _, b := range in.Chain {
		if b.Num < in.FSB {
			return false
		}
	}
	for _, ix := range in.Ixs {
		if ix.Size == 0 {
			return false
		}
		if ix.Start != nil && (*ix.Start%ix.Size != 0 || (len(in.Chain) > 0 && *ix.Start > in.Chain[0].Num)) {
			return false
		}
	}
	if in.Kind == "stream" && in.Stop != 0 && in.Start > in.Stop {
		return false
	}
	return true
}

func c15Case(in *c15Input, obs *c15Obs) *Case {
	cs := &Case{Obs: obs}
	h := sha1.Sum(mustJSON(in))
	cs.Key = fmt.Sprintf("%x", h[:10])
	valid := "valid"
	if !c15Valid(in) {
		valid = "malformed"
	}
	common := fmt.Sprintf("%d %s %s %s %s", in.FSB, c15CoqChain(in.Chain), c15CoqIxs(in.Ixs), coqNs(in.Possible), c15CoqFilter(in.Filter))
	early := "full"
	for _, ix := range in.Ixs {
		if ix.Upto < len(in.Chain) {
			early = "early"
		}
	}
	switch in.Kind {
	case "prov":
		reqs := make([]string, len(in.Reqs))
		mult := "mult"
		for i, rq := range in.Reqs {
			reqs[i] = fmt.Sprintf("(%d, %d)", rq[0], rq[1])
			for _, s := range in.Possible {
				if rq[1] != 0 && s >= rq[1] && s%rq[1] != 0 {
					mult = "nonmult"
				}
			}
		}
		files := make([]string, len(obs.Files))
		for i, f := range obs.Files {
			var kvs []string
			for _, k := range sortedKeys(f.KV) {
				kvs = append(kvs, fmt.Sprintf("(%s, %s)", coqBytes(k), coqNs(f.KV[k])))
			}
			files[i] = fmt.Sprintf("(%d, %d, %s)", f.Low, f.Size, coqList(kvs))
		}
		res := make([]string, len(obs.Res))
		anyPanic := false
		for i, r := range obs.Res {
			switch r.Outcome {
			case "ok":
				res[i] = "ROk " + coqNs(r.Blocks)
				if len(r.Blocks) > 0 {
					cs.Nontrivial = true
				}
			case "err":
				res[i] = "RErr"
			default:
				res[i] = "RPanic"
				anyPanic = true
			}
		}
		cs.Coq = fmt.Sprintf("CProv %s %s %s %s %s", common, coqList(reqs), c15CoqBools(obs.IxPanic), coqList(files), coqList(res))
		cs.Class = fmt.Sprintf("prov/%s/%s/%s", valid, mult, early)
		if anyPanic {
			cs.Class += "/panic"
		}
	case "stream":
		names := make([]string, len(obs.Files))
		for i, f := range obs.Files {
			names[i] = fmt.Sprintf("(%d, %d)", f.Low, f.Size)
		}
		end := map[string]int{"stop": 0, "wait": 1, "other": 2, "hang": 3, "panic": 3}[obs.End]
		cs.Coq = fmt.Sprintf("CStream %s %d %d %d %s %s %s %s %s %d %d", common, in.Bundle, in.Start, in.Stop, coqNs(in.WL), coqBool(in.Progress),
			c15CoqBools(obs.IxPanic), coqList(names), coqNs(obs.Deliv), end, obs.Wait)
		prog := "noprog"
		if in.Progress {
			prog = "prog"
		}
		cs.Class = fmt.Sprintf("stream/%s/%s/%s/%s", valid, obs.End, prog, early)
		inRange := 0
		for _, b := range in.Chain {
			if b.Num >= in.Start {
				inRange++
			}
		}
		cs.Nontrivial = len(obs.Deliv) > 0 && len(obs.Deliv) < inRange
	}
	for _, p := range obs.IxPanic {
		if p && !strings.HasSuffix(cs.Class, "/ixpanic") {
			cs.Class += "/ixpanic"
		}
	}
	return cs
}

// ---------------------------------------------------------------- generators

var c15Keys = []string{"a", "b", "ab", "ba", "abc", "xa", "c", ""}

func c15GenChain(r *Rng, bundle uint64, fsb uint64) []c15Blk {
	var n uint64
	switch r.Intn(6) {
	case 0:
		n = 0
	case 1:
		n = 1
	case 2:
		n = bundle * uint64(r.Intn(4))
	case 3:
		n = uint64(r.Intn(int(3*bundle) + 1))
	default:
		n = 0
	}
	if n < fsb {
		n = fsb
	}
	length := 8 + r.Intn(40)
	every := uint64(0)
	if r.Chance(30) {
		every = uint64(2 + r.Intn(7))
	}
	dense := 10 + r.Intn(60)
	gaps := r.Intn(4) // 0: none, 1-2: some small gaps, 3: occasionally a whole bundle missing
	var chain []c15Blk
	for i := 0; i < length; i++ {
		var keys []string
		if every != 0 {
			if n%every == 0 {
				keys = append(keys, "a")
			}
		} else {
			for r.Chance(dense) && len(keys) < 3 {
				keys = append(keys, c15Keys[r.Intn(len(c15Keys))])
			}
		}
		chain = append(chain, c15Blk{Num: n, Keys: keys})
		step := uint64(1)
		if gaps > 0 && r.Chance(20) {
			step = 1 + uint64(r.Intn(int(bundle)))
			if bundle > 1 && step >= bundle {
				step = bundle - 1
			}
			if gaps == 3 && r.Chance(15) {
				step = bundle + 1 + uint64(r.Intn(int(2*bundle)))
			}
		}
		n += step
	}
	return chain
}

func c15GenFilter(r *Rng) []c15Item {
	var f []c15Item
	for i := 0; i < 1+r.Intn(2); i++ {
		switch r.Intn(6) {
		case 0:
			f = append(f, c15Item{PS: true, A: []string{"a", "ab", "x", "b", ""}[r.Intn(5)], B: ""})
		case 1:
			f = append(f, c15Item{PS: true, A: "", B: []string{"a", "b", "c", "bc", ""}[r.Intn(5)]})
		case 2:
			f = append(f, c15Item{PS: true, A: []string{"a", "x", "b"}[r.Intn(3)], B: []string{"a", "c", "b"}[r.Intn(3)]})
		default:
			f = append(f, c15Item{A: c15Keys[r.Intn(len(c15Keys))]})
		}
	}
	return f
}

func c15GenIxs(r *Rng, bundle uint64, chain []c15Blk, fsb uint64, malformed bool) ([]c15Ix, []uint64) {
	var ixs []c15Ix
	used := map[uint64]bool{}
	for i := 0; i < 1+r.Intn(2); i++ {
		var size uint64
		switch r.Intn(10) {
		case 0:
			size = bundle*uint64(1+r.Intn(3)) + 1 + uint64(r.Intn(int(bundle))) // not a multiple
		case 1:
			size = 1 + uint64(r.Intn(int(bundle))) // smaller than (or equal to) the bundle
		default:
			size = bundle * []uint64{1, 2, 3, 5, 10}[r.Intn(5)]
		}
		if malformed && r.Chance(25) {
			size = 0
		}
		if used[size] {
			continue
		}
		used[size] = true
		ix := c15Ix{Size: size, Upto: len(chain)}
		if r.Chance(40) {
			ix.Upto = r.Intn(len(chain) + 1)
		}
		first := chain[0].Num
		if size != 0 && first%size != 0 && first != fsb && r.Chance(80) || r.Chance(10) {
			if size != 0 {
				d := first - first%size
				if d >= size && r.Chance(20) {
					d -= size
				}
				ix.Start = &d
			}
		}
		if malformed && r.Chance(30) {
			d := first + 1 + uint64(r.Intn(7)) // unaligned or above the first block
			ix.Start = &d
		}
		ixs = append(ixs, ix)
	}
	var possible []uint64
	for _, ix := range ixs {
		if !r.Chance(8) {
			possible = append(possible, ix.Size)
		}
	}
	if r.Chance(30) {
		possible = append(possible, bundle*uint64(1+r.Intn(6)))
	}
	if r.Chance(10) {
		possible = append(possible, 0)
	}
	for i := len(possible) - 1; i > 0; i-- {
		j := r.Intn(i + 1)
		possible[i], possible[j] = possible[j], possible[i]
	}
	if possible == nil {
		possible = []uint64{}
	}
	return ixs, possible
}

func c15Last(chain []c15Blk) uint64 { return chain[len(chain)-1].Num }

func c15Gen(r *Rng, i int, tier string) any {
	bundle := []uint64{2, 3, 4, 5, 10, 1}[r.Intn(6)]
	fsb := uint64(0)
	if r.Chance(15) {
		fsb = uint64(1 + r.Intn(int(2*bundle)+1))
	}
	malformed := i%10 >= 8
	chain := c15GenChain(r, bundle, fsb)
	if malformed && r.Chance(20) && fsb > 0 {
		chain = append([]c15Blk{{Num: fsb - 1, Keys: []string{"a"}}}, chain...)
	}
	in := c15Input{FSB: fsb, Chain: chain, Filter: c15GenFilter(r)}
	in.Ixs, in.Possible = c15GenIxs(r, bundle, chain, fsb, malformed)
	last := c15Last(chain)
	if i%2 == 0 {
		in.Kind = "prov"
		if malformed && r.Chance(50) {
			// the indexer fed out of order
			for k := 0; k < 1+r.Intn(3); k++ {
				a, b := r.Intn(len(chain)), r.Intn(len(chain))
				chain[a], chain[b] = chain[b], chain[a]
			}
		}
		bsize := bundle
		if r.Chance(25) {
			bsize = uint64(1 + r.Intn(12))
		}
		top := last/bsize + 3
		switch r.Intn(3) {
		case 0: // the way a file source asks: consecutive bundles
			from := uint64(r.Intn(int(top)))
			for b := from; b < top; b++ {
				in.Reqs = append(in.Reqs, [2]uint64{b * bsize, bsize})
			}
		default:
			for k := 0; k < 4+r.Intn(10); k++ {
				bs := bsize
				if r.Chance(15) {
					bs = uint64(1 + r.Intn(12))
				}
				base := uint64(r.Intn(int(last/bs)+3)) * bs
				if r.Chance(5) {
					base += 1 + uint64(r.Intn(3))
				}
				if malformed && r.Chance(10) {
					bs = 0
				}
				in.Reqs = append(in.Reqs, [2]uint64{base, bs})
			}
		}
		return in
	}
	in.Kind = "stream"
	in.Bundle = bundle
	in.Progress = r.Chance(25)
	first := chain[0].Num
	switch r.Intn(5) {
	case 0:
		in.Start = first
	case 1:
		in.Start = 0
	default:
		in.Start = first + uint64(r.Intn(int(last-first)+1))
	}
	switch r.Intn(10) {
	case 0:
		in.Stop = 0
	case 1:
		in.Stop = last + 1 + uint64(r.Intn(int(3*bundle)))
	case 2:
		in.Stop = last
	default:
		if last > in.Start {
			in.Stop = in.Start + uint64(r.Intn(int(last-in.Start)+1))
		} else {
			in.Stop = in.Start
		}
	}
	if malformed && r.Chance(40) && in.Start > 0 {
		in.Stop = uint64(1 + r.Intn(int(in.Start)))
	}
	for k := r.Intn(4); k > 0; k-- {
		in.WL = append(in.WL, uint64(r.Intn(int(last)+int(bundle)+2)))
	}
	return in
}

func c15U(v uint64) *uint64 { return &v }

func c15Corpus() []any {
	// design-time failing input: index size 1000, a key on every 100th block, BlocksInRange(100,100)
	var every100 []c15Blk
	for n := uint64(0); n <= 2100; n += 100 {
		every100 = append(every100, c15Blk{Num: n, Keys: []string{"a"}})
	}
	// index size 150 with bundle size 100: the file [0,150) must not answer for [100,200)
	var every10 []c15Blk
	for n := uint64(0); n <= 700; n += 10 {
		every10 = append(every10, c15Blk{Num: n, Keys: []string{"a"}})
	}
	var dense []c15Blk
	for n := uint64(1); n <= 40; n++ {
		if n == 17 || n == 18 || n == 30 {
			continue // skipped numbers
		}
		var keys []string
		if n%7 == 0 || n == 19 {
			keys = []string{"ab"}
		}
		if n%5 == 0 {
			keys = append(keys, "c")
		}
		dense = append(dense, c15Blk{Num: n, Keys: keys})
	}
	ab := []c15Item{{A: "ab"}}
	return []any{
		c15Input{Kind: "prov", Chain: every100, Ixs: []c15Ix{{Size: 1000, Upto: len(every100)}}, Possible: []uint64{1000},
			Filter: []c15Item{{A: "a"}}, Reqs: [][2]uint64{{100, 100}, {0, 100}, {900, 100}, {1000, 100}, {1900, 100}, {2000, 100}}},
		c15Input{Kind: "prov", Chain: every10, Ixs: []c15Ix{{Size: 150, Upto: len(every10)}}, Possible: []uint64{150},
			Filter: []c15Item{{A: "a"}}, Reqs: [][2]uint64{{0, 100}, {100, 100}, {200, 100}, {300, 100}, {0, 150}, {150, 50}}},
		c15Input{Kind: "prov", FSB: 3, Chain: dense[2:], Ixs: []c15Ix{{Size: 10, Upto: 30}, {Size: 5, Upto: len(dense) - 2, Start: c15U(0)}}, Possible: []uint64{10, 5},
			Filter: []c15Item{{PS: true, A: "a", B: ""}, {A: "c"}}, Reqs: [][2]uint64{{0, 5}, {5, 5}, {0, 10}, {10, 10}, {20, 5}, {25, 5}, {30, 5}, {35, 5}, {7, 5}}},
		c15Input{Kind: "stream", Chain: dense, Ixs: []c15Ix{{Size: 10, Start: c15U(0), Upto: len(dense)}}, Possible: []uint64{10}, Filter: ab,
			Bundle: 5, Start: 3, Stop: 33, WL: []uint64{17, 26}},
		c15Input{Kind: "stream", Chain: dense, Ixs: []c15Ix{{Size: 10, Start: c15U(0), Upto: 24}}, Possible: []uint64{10}, Filter: ab,
			Bundle: 5, Start: 8, Stop: 38},
		c15Input{Kind: "stream", Chain: dense, Ixs: []c15Ix{{Size: 20, Start: c15U(0), Upto: len(dense)}}, Possible: []uint64{20}, Filter: []c15Item{{A: "zz"}},
			Bundle: 5, Start: 1, Stop: 0, Progress: true},
		c15Input{Kind: "stream", Chain: dense, Ixs: []c15Ix{{Size: 20, Start: c15U(0), Upto: len(dense)}}, Possible: []uint64{20}, Filter: []c15Item{{A: "zz"}},
			Bundle: 5, Start: 1, Stop: 60},
	}
}

func init() {
	props["C15"] = &Prop{Gen: c15Gen, Exec: c15Exec, Corpus: c15Corpus}
}
