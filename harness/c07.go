package main

// C07 / C13: the real stream.New(...).Run over real merged-blocks bundles, a forked-blocks store
// and a real, ready ForkableHub whose live growth is interleaved with the file phase at chosen
// delivery counts (the user handler blocks the whole pipeline while the hub is advanced).

import (
	"context"
	"encoding/json"
	"errors"
	"fmt"
	"sort"
	"strings"
	"sync"
	"time"

	"github.com/streamingfast/bstream"
	"github.com/streamingfast/bstream/forkable"
	"github.com/streamingfast/bstream/hub"
	pbbstream "github.com/streamingfast/bstream/pb/sf/bstream/v1"
	"github.com/streamingfast/bstream/stream"
	"github.com/streamingfast/dstore"
	"github.com/streamingfast/shutter"
	"google.golang.org/protobuf/proto"
)

type c07Pause struct {
	After int `json:"after"` // after this many events reached the user handler
	Push  int `json:"push"`  // push this many further arrival blocks into the hub
}
type c07Input struct {
	Prop     string     `json:"prop"`
	First    uint64     `json:"first"`
	Kept     int        `json:"kept"`
	Bundle   uint64     `json:"bundle"`
	Root     fkBlock    `json:"root"`
	Arrival  []fkBlock  `json:"arrival"`
	A0       int        `json:"a0"`
	HubStart uint64     `json:"hub_start"`
	Merged   uint64     `json:"merged"` // canonical blocks below this height are in merged files (multiple of Bundle)
	Mode     string     `json:"mode"`   // num | cursor | target
	Start    int64      `json:"start"`
	KSel     int        `json:"ksel"`
	Undo     bool       `json:"undo"`
	Forked   bool       `json:"forked"`
	Straddle bool       `json:"straddle"`            // prefer a cursor whose LIB is below the hub window and whose block is inside
	CurAhead int        `json:"cur_ahead,omitempty"` // the cursor may come from a server that had seen this many more arrivals than the hub
	NonFinal bool       `json:"non_final,omitempty"` // W3: with the final-blocks-only filter, resume from a New/Undo cursor (must be refused)
	Stop     uint64     `json:"stop"`
	Filter   string     `json:"filter"` // default | final | custom
	Custom   int        `json:"custom"`
	Pauses   []c07Pause `json:"pauses"`
	Shape    string     `json:"shape"`
}
type c07Obs struct {
	Skip      string    `json:"skip,omitempty"` // why the scenario could not be set up (trivial case)
	Canon     []fkBlock `json:"canon"`
	Forked    []fkBlock `json:"forked"`
	Cursor    *brCursor `json:"cursor,omitempty"`
	Live      []fkEvent `json:"live"`       // reference stream up to the cursor event
	AbsStart  uint64    `json:"abs_start"`  // start block after resolution (as the harness expects it)
	HubLowest uint64    `json:"hub_lowest"` // at stream start
	HubHead   uint64    `json:"hub_head"`
	HubLib    uint64    `json:"hub_lib"`
	Events    []fkEvent `json:"events"`
	Pushed    []int     `json:"pushed"` // arrival count known to the hub after each user event (len = len(Events))
	Err       int       `json:"err"`    // 0 nil | 1 stop | 2 invalid argument | 3 other | 4 hang/panic
	ErrText   string    `json:"err_text,omitempty"`
	// W3: 1-based index of the first delivered event whose block is not proto.Equal to the block that was stored / fed
	// under that id (payload, timestamp, ... included), 0 = every delivered block is the stored block
	Altered int `json:"altered"`
}

// testHub wraps a real ForkableHub driven synchronously.
type testHub struct {
	fh      *hub.ForkableHub
	handler bstream.Handler
	mu      sync.Mutex // lives is appended to by the hub's Run goroutine
	lives   []*idleSource
	cur     *hubLive
}

func newTestHub(kept int) (*testHub, error) {
	th := &testHub{}
	handlerCh := make(chan bstream.Handler, 1)
	lsf := func(h bstream.Handler) bstream.Source {
		select {
		case handlerCh <- h:
		default:
		}
		l := &idleSource{shutter.New()}
		th.mu.Lock()
		th.lives = append(th.lives, l)
		th.mu.Unlock()
		return l
	}
	obsf := bstream.SourceFromNumFactory(func(start uint64, h bstream.Handler) bstream.Source {
		if th.cur == nil || th.cur.Nil {
			return nil
		}
		var bl []fkBlock
		for _, b := range th.cur.Pass {
			if b.Num >= start {
				bl = append(bl, b)
			}
		}
		// W3: one-block passes carry the payload too (c06PB), so that every block the stream can deliver has one
		return &passSource{Shutter: shutter.New(), blocks: bl, h: h, pb: c06PB}
	})
	th.fh = hub.NewForkableHub(lsf, obsf, kept)
	go th.fh.Run()
	select {
	case th.handler = <-handlerCh:
	case <-time.After(5 * time.Second):
		return nil, fmt.Errorf("hub did not start")
	}
	return th, nil
}

func (th *testHub) push(b fkBlock, pass []fkBlock) error {
	th.cur = &hubLive{Blk: b, Pass: pass, Nil: pass == nil}
	return th.handler.ProcessBlock(c06PB(b), nil)
}

func (th *testHub) close() {
	th.fh.Shutdown(nil)
	th.mu.Lock()
	lives := append([]*idleSource(nil), th.lives...)
	th.mu.Unlock()
	for i := 0; i < len(lives) && i < 4; i++ {
		lives[i].Shutdown(nil)
	}
}

type c07Stepable interface {
	Step() bstream.StepType
	Cursor() *bstream.Cursor
	ReorgJunctionBlock() bstream.BlockRef
}

func c07Run(in *c07Input) *c07Obs {
	saved := bstream.GetProtocolFirstStreamableBlock
	bstream.GetProtocolFirstStreamableBlock = in.First
	savedOpts := stream.VerifFileSourceOptions
	stream.VerifFileSourceOptions = []bstream.FileSourceOption{bstream.FileSourceWithBundleSize(in.Bundle)}
	defer func() {
		bstream.GetProtocolFirstStreamableBlock = saved
		stream.VerifFileSourceOptions = savedOpts
	}()
	obs := &c07Obs{}

	// ---- reference live run: mints cursors, defines the canonical chain
	rec := &fkRecorder{failAt: -1}
	ref := forkable.New(rec, forkable.WithExclusiveLIB(bstream.NewBlockRef(fkIDStr(in.Root.ID), in.Root.Num)), forkable.WithKeptFinalBlocks(100000))
	type gev struct {
		ev  fkEvent
		arr int // arrival index that produced it
	}
	var all []gev
	byID := map[uint64]fkBlock{in.Root.ID: in.Root}
	for i, b := range in.Arrival {
		byID[b.ID] = b
		var evs []fkEvent
		rec.cur = &evs
		_ = ref.ProcessBlock(fkPB(b), nil)
		for _, e := range evs {
			all = append(all, gev{e, i})
		}
	}
	var stack []fkBlock
	for _, g := range all {
		switch g.ev.Step {
		case 1:
			stack = append(stack, g.ev.Blk)
		case 2:
			if len(stack) > 0 {
				stack = stack[:len(stack)-1]
			}
		}
	}
	canon := append([]fkBlock{in.Root}, stack...)
	obs.Canon = canon
	canonIDs := map[uint64]bool{}
	for _, b := range canon {
		canonIDs[b.ID] = true
	}

	// ---- stores
	merged := dstore.NewMockStore(nil)
	bundles := map[uint64][]fkBlock{}
	for _, b := range canon {
		if b.Num < in.Merged {
			base := b.Num / in.Bundle * in.Bundle
			bundles[base] = append(bundles[base], b)
		}
	}
	for base := in.Root.Num / in.Bundle * in.Bundle; base < in.Merged; base += in.Bundle {
		if len(bundles[base]) == 0 {
			obs.Skip = "empty bundle"
			return obs
		}
		merged.SetFile(fmt.Sprintf("%010d", base), c06Bytes(bundles[base]...))
	}
	waitingForFiles := make(chan struct{}, 1)
	mergedNames := map[string]bool{}
	for base := in.Root.Num / in.Bundle * in.Bundle; base < in.Merged; base += in.Bundle {
		mergedNames[fmt.Sprintf("%010d", base)] = true
	}
	merged.FileExistsFunc = func(ctx context.Context, base string) (bool, error) {
		if mergedNames[base] {
			return true, nil
		}
		select {
		case waitingForFiles <- struct{}{}:
		default:
		}
		return false, nil
	}
	forkedStore := dstore.NewMockStore(nil)
	var forkedAll []fkBlock
	for _, b := range byID {
		if !canonIDs[b.ID] {
			forkedAll = append(forkedAll, b)
		}
	}
	sort.Slice(forkedAll, func(i, j int) bool { return forkedAll[i].ID < forkedAll[j].ID })
	for _, b := range forkedAll {
		forkedStore.SetFile(bstream.BlockFileName(c06PB(b)), c06Bytes(b))
	}
	obs.Forked = forkedAll

	// ---- hub
	th, err := newTestHub(in.Kept)
	if err != nil {
		obs.Skip = "hub start"
		return obs
	}
	defer th.close()
	if in.A0 < 1 || in.A0 > len(in.Arrival) {
		obs.Skip = "a0"
		return obs
	}
	var pass []fkBlock
	for _, b := range in.Arrival[:in.A0-1] {
		if b.Num >= in.HubStart {
			pass = append(pass, b)
		}
	}
	if root := in.Root; root.Num >= in.HubStart {
		pass = append([]fkBlock{root}, pass...)
	}
	sort.SliceStable(pass, func(i, j int) bool { return pass[i].Num < pass[j].Num })
	if pass == nil {
		pass = []fkBlock{}
	}
	if err := th.push(in.Arrival[in.A0-1], pass); err != nil {
		obs.Skip = "hub push error"
		return obs
	}
	// a hub that is not ready yet is a legitimate start: the stream reads files until the hub can serve it
	pushedCount := in.A0
	obs.HubLowest = th.fh.LowestBlockNum()
	if n, _, _, lib, err := th.fh.HeadInfo(); err == nil {
		obs.HubHead = n
		obs.HubLib = lib
	}

	// ---- the cursor
	var cursor *bstream.Cursor
	if in.Mode == "cursor" || in.Mode == "target" {
		var cand []int
		for i, g := range all {
			if g.arr >= in.A0+in.CurAhead {
				break
			}
			if in.Filter == "final" && !in.NonFinal {
				if g.ev.Step == 16 {
					cand = append(cand, i)
				}
			} else if g.ev.Step == 1 || g.ev.Step == 2 {
				cand = append(cand, i)
			}
		}
		pick := func(pred func(g gev) bool) {
			var u []int
			for _, i := range cand {
				if pred(all[i]) {
					u = append(u, i)
				}
			}
			if len(u) > 0 {
				cand = u
			}
		}
		if in.Filter != "final" || in.NonFinal {
			if in.Undo {
				pick(func(g gev) bool { return g.ev.Step == 2 })
			}
			if in.Forked {
				pick(func(g gev) bool { return !canonIDs[g.ev.Blk.ID] })
			}
			if in.Straddle {
				pick(func(g gev) bool { return g.ev.Lib.Num < obs.HubLowest && g.ev.CBlk.Num >= obs.HubLowest })
			}
		}
		if len(cand) == 0 {
			obs.Skip = "no cursor"
			return obs
		}
		k := cand[in.KSel%len(cand)]
		e := all[k].ev
		obs.Cursor = &brCursor{e.Step, e.CBlk, e.Head, e.Lib}
		for _, g := range all[:k+1] {
			obs.Live = append(obs.Live, g.ev)
		}
		cursor = &bstream.Cursor{Step: bstream.StepType(e.Step), Block: bstream.NewBlockRef(fkIDStr(e.CBlk.ID), e.CBlk.Num),
			HeadBlock: bstream.NewBlockRef(fkIDStr(e.Head.ID), e.Head.Num), LIB: bstream.NewBlockRef(fkIDStr(e.Lib.ID), e.Lib.Num)}
	}

	// ---- the stream
	var mu sync.Mutex
	lastEvent := time.Now()
	nextPause := 0
	pauses := append([]c07Pause{}, in.Pauses...)
	sort.SliceStable(pauses, func(i, j int) bool { return pauses[i].After < pauses[j].After })
	pushMore := func(n int) {
		for i := 0; i < n && pushedCount < len(in.Arrival); i++ {
			_ = th.push(in.Arrival[pushedCount], []fkBlock{})
			pushedCount++
		}
	}
	h := bstream.HandlerFunc(func(blk *pbbstream.Block, obj interface{}) error {
		so := obj.(c07Stepable)
		c := so.Cursor()
		ev := fkEvent{Step: int(so.Step()), Blk: fkFromPB(blk), CBlk: fkCursorBlk(c, so.Step()), Head: fkRefOf(c.HeadBlock), Lib: fkRefOf(c.LIB), CStep: int(c.Step)}
		if j := so.ReorgJunctionBlock(); j != nil && so.Step() == bstream.StepUndo {
			r := fkRefOf(j)
			ev.Junc = &r
		}
		mu.Lock()
		obs.Events = append(obs.Events, ev)
		n := len(obs.Events)
		if obs.Altered == 0 {
			if want, ok := byID[ev.Blk.ID]; !ok || !proto.Equal(blk, c06PB(want)) {
				obs.Altered = n
			}
		}
		for nextPause < len(pauses) && pauses[nextPause].After <= n {
			pushMore(pauses[nextPause].Push)
			nextPause++
		}
		obs.Pushed = append(obs.Pushed, pushedCount)
		lastEvent = time.Now()
		mu.Unlock()
		return nil
	})
	var opts []stream.Option
	if in.Stop != 0 {
		opts = append(opts, stream.WithStopBlock(in.Stop))
	}
	switch in.Filter {
	case "final":
		opts = append(opts, stream.WithFinalBlocksOnly())
	case "custom":
		opts = append(opts, stream.WithCustomStepTypeFilter(bstream.StepType(in.Custom)))
	}
	switch in.Mode {
	case "cursor":
		opts = append(opts, stream.WithCursor(cursor))
	case "target":
		opts = append(opts, stream.WithTargetCursor(cursor))
	}
	st := stream.New(forkedStore, merged, th.fh, in.Start, h, opts...)
	done := make(chan error, 1)
	panicked := false
	ctx, cancel := context.WithCancel(context.Background())
	defer cancel()
	go func() {
		defer func() {
			if r := recover(); r != nil {
				panicked = true
				done <- fmt.Errorf("panic: %v", r)
			}
		}()
		done <- st.Run(ctx)
	}()
	var runErr error
	deadline := time.Now().Add(8 * time.Second)
loop:
	for {
		select {
		case runErr = <-done:
			break loop
		case <-waitingForFiles:
			// the file source asks for a merged file that does not exist (yet): with static files it would poll
			// forever; this is the "waiting" outcome, not a hang
			// the reader looks ahead: the miss only means "waiting" if the stream neither ends nor joins the hub
			select {
			case runErr = <-done:
				break loop
			case <-time.After(250 * time.Millisecond):
			}
			if th.fh.VerifSubscribers() > 0 {
				continue
			}
			cancel()
			select {
			case <-done:
			case <-time.After(2 * time.Second):
				obs.Err = 4
				obs.ErrText = "hang after cancel"
				return obs
			}
			mu.Lock()
			obs.Err = 0
			obs.ErrText = "waiting for merged files"
			if obs.Events == nil {
				obs.Events = []fkEvent{}
			}
			mu.Unlock()
			return obs
		case <-time.After(1 * time.Millisecond):
			mu.Lock()
			idle := time.Since(lastEvent) > 5*time.Millisecond
			joined := th.fh.VerifSubscribers() > 0
			if idle && joined && pushedCount < len(in.Arrival) {
				// the stream consumed what exists: the chain grows by one block
				pushMore(1)
				lastEvent = time.Now()
			}
			exhausted := idle && joined && pushedCount >= len(in.Arrival)
			sinceLast := time.Since(lastEvent)
			mu.Unlock()
			if time.Now().After(deadline) || (exhausted && sinceLast > 400*time.Millisecond) {
				cancel()
				select {
				case runErr = <-done:
					if exhausted {
						// nothing more will ever arrive: the stream legitimately waits (no stop block reached)
						obs.Err = 0
						obs.ErrText = "waiting at head"
						runErr = nil
						break loop
					}
				case <-time.After(2 * time.Second):
				}
				obs.Err = 4
				obs.ErrText = "hang"
				if obs.Events == nil {
					obs.Events = []fkEvent{}
				}
				return obs
			}
		}
	}
	if obs.Events == nil {
		obs.Events = []fkEvent{}
	}
	var inv *stream.ErrInvalidArg
	switch {
	case panicked:
		obs.Err = 4
		obs.ErrText = runErr.Error()
	case runErr == nil:
		if obs.ErrText == "" {
			obs.Err = 0
		}
	case errors.Is(runErr, stream.ErrStopBlockReached):
		obs.Err = 1
	case errors.As(runErr, &inv):
		obs.Err = 2
	default:
		obs.Err = 3
		obs.ErrText = runErr.Error()
	}
	return obs
}

// c07ExtraBlocks lengthens the generated chain (used by C08's slow-consumer cases).
var c07ExtraBlocks = 0

// c07GenScenario builds a consensus-consistent history: one canonical chain with short-lived forks.
func c07GenScenario(r *Rng, in *c07Input) {
	in.Bundle = uint64([]int{2, 3, 5, 5}[r.Intn(4)])
	base := in.Bundle * uint64(1+r.Intn(3)) // root height, on a bundle boundary
	id := uint64(100)
	newID := func() uint64 { id += uint64(1 + r.Intn(3)); return id }
	in.Root = fkBlock{ID: newID(), Num: base, Parent: newID(), Lib: base}
	n := 55 + r.Intn(30) + c07ExtraBlocks
	lag := 2 + r.Intn(3)
	// canonical chain
	canon := []fkBlock{in.Root}
	libOf := func(chain []fkBlock) uint64 {
		if len(chain) > lag {
			return chain[len(chain)-1-lag].Num
		}
		return in.Root.Num
	}
	for i := 0; i < n; i++ {
		p := canon[len(canon)-1]
		skip := uint64(1)
		if r.Chance(8) {
			skip = 2
		}
		b := fkBlock{ID: newID(), Num: p.Num + skip, Parent: p.ID}
		b.Lib = libOf(canon)
		if b.Lib < p.Lib {
			b.Lib = p.Lib
		}
		canon = append(canon, b)
	}
	// arrival order with short forks: at some canonical positions a side branch of 1-2 blocks arrives
	// before the canonical continuation
	var arrival []fkBlock
	for i := 1; i < len(canon); i++ {
		if r.Chance(14) && i+3 < len(canon) {
			// fork off canon[i-1]
			p := canon[i-1]
			flen := 1 + r.Intn(2)
			for j := 0; j < flen; j++ {
				fb := fkBlock{ID: newID(), Num: p.Num + 1, Parent: p.ID, Lib: p.Lib}
				arrival = append(arrival, fb)
				p = fb
			}
		}
		arrival = append(arrival, canon[i])
	}
	in.Arrival = arrival
}

func c07Gen(prop string) func(r *Rng, i int, tier string) any {
	return func(r *Rng, i int, tier string) any {
		in := &c07Input{Prop: prop}
		in.First = uint64([]int{0, 0, 1}[r.Intn(3)])
		c07GenScenario(r, in)
		if r.Chance(25) { // W3: 15 -> 25, starts below the first streamable block were met by ~2 cases in 96
			in.First = in.Root.Num // the chain starts at the first streamable block
		}
		na := len(in.Arrival)
		in.A0 = na/4 + r.Intn(na/4)
		filesOnly := prop == "C13" && r.Chance(30) // the stop block is reached while still reading merged files
		if filesOnly {
			in.A0 = na * 3 / 4
		}
		hubHeadNum := in.Arrival[in.A0-1].Num
		// geometry of a real deployment: merged files lag behind the live head, the hub retains more than
		// that lag, so that files and hub together always cover the chain while the stream reads files
		growth := uint64(8) // the hub's head may advance by up to 6 blocks (pauses) before the join
		in.Kept = int(2*in.Bundle+growth) + []int{0, 1, 3, 10, 40}[r.Intn(5)]
		if hubHeadNum > in.Root.Num+uint64(in.Kept)+8 {
			in.HubStart = hubHeadNum - uint64(in.Kept) - uint64(4+r.Intn(5))
		} else {
			in.HubStart = in.Root.Num
		}
		lowestMax := in.HubStart
		if hubHeadNum+growth > uint64(in.Kept)+2 && hubHeadNum+growth-2-uint64(in.Kept) > lowestMax {
			lowestMax = hubHeadNum + growth - 2 - uint64(in.Kept)
		}
		in.Merged = (lowestMax/in.Bundle + 1) * in.Bundle
		for r.Chance(40) && in.Merged+in.Bundle <= hubHeadNum {
			in.Merged += in.Bundle
		}
		lastNum := in.Arrival[na-1].Num
		// start / cursor
		span := int(hubHeadNum - in.Root.Num)
		switch c := r.Intn(100); {
		case c < 40:
			in.Mode = "num"
			in.Start = int64(in.Root.Num) + int64(r.Intn(span+3))
			if r.Chance(15) {
				if in.First == in.Root.Num {
					in.Start = -int64(r.Intn(span + 4)) // may resolve below the first streamable block: clamped
				} else {
					in.Start = -int64(r.Intn(span + 1)) // never below the first merged file
				}
			}
			if uint64(in.Start) > hubHeadNum && r.Chance(70) {
				in.Start = int64(hubHeadNum) - int64(r.Intn(5))
			}
			if uint64(in.Start) < in.Root.Num && in.Start >= 0 {
				in.Start = int64(in.Root.Num)
			}
			if in.First == in.Root.Num && r.Chance(40) {
				in.Start = int64(r.Intn(int(in.Root.Num) + 1)) // below the first streamable block: clamped
			}
		case c < 80:
			in.Mode = "cursor"
			in.Start = int64(in.Root.Num)
		default:
			in.Mode = "target"
			in.Start = int64(in.Root.Num) + int64(r.Intn(span+1))
		}
		in.KSel = r.Intn(1 << 20)
		in.Undo = r.Chance(25)
		in.Forked = r.Chance(45)
		in.Straddle = r.Chance(35)
		if in.Straddle && in.Mode != "num" {
			// the merged files reach the hub's head region, so that the file phase can get to the cursor block
			for in.Merged+in.Bundle <= hubHeadNum {
				in.Merged += in.Bundle
			}
		}
		switch c := r.Intn(100); {
		case c < 65:
			in.Filter = "default"
		case c < 85:
			in.Filter = "final"
		default:
			in.Filter = "custom"
			in.Custom = []int{1, 3, 19, 51, 16, 17, 2, 35}[r.Intn(8)]
		}
		// stop block: somewhere between start and the end of the history
		lo := hubHeadNum
		if r.Chance(35) {
			lo = in.Root.Num + uint64(r.Intn(span+1))
		}
		in.Stop = lo + uint64(r.Intn(int(lastNum-lo)+1))
		if in.Filter == "final" && in.Stop+6 > lastNum {
			if lastNum > 8 {
				in.Stop = lastNum - 6 - uint64(r.Intn(3))
			}
		}
		if filesOnly && in.HubStart > in.Root.Num+in.Bundle+2 {
			in.Mode = "num"
			in.Shape = "num/" + in.Filter
			room := int(in.HubStart - in.Root.Num - 1)
			in.Start = int64(in.Root.Num) + int64(r.Intn(room/2+1))
			in.Stop = uint64(in.Start) + uint64(r.Intn(int(in.HubStart-1-uint64(in.Start))+1))
			if r.Chance(60) {
				// on a bundle boundary (first block of a bundle), in a later bundle than the start block
				b := (in.Stop / in.Bundle) * in.Bundle
				if b > uint64(in.Start) && b < in.HubStart {
					in.Stop = b
				}
			}
			in.Pauses = nil
		}
		if prop == "C13" && r.Chance(8) && in.Mode == "num" && in.Start >= 0 {
			in.Stop = uint64(in.Start) - uint64(1+r.Intn(3)) // start after stop: invalid argument
			if in.Stop == 0 || in.Stop > uint64(in.Start) {
				in.Stop = 1
			}
		}
		for k := 0; k < r.Intn(4) && k < 3; k++ {
			in.Pauses = append(in.Pauses, c07Pause{After: 1 + r.Intn(25), Push: 1 + r.Intn(2)})
		}
		in.Shape = fmt.Sprintf("%s/%s", in.Mode, in.Filter)
		if !filesOnly && r.Chance(14) {
			// a LAGGING hub: it holds only its latest block at the start (not ready), becomes ready while the stream is reading
			// files, and the merged files reach beyond the point where it does — so the first join attempt that can succeed falls
			// above the hub's last irreversible block, possibly while the hub sits on a short fork
			in.HubStart = hubHeadNum
			in.Merged = ((hubHeadNum+4+uint64(r.Intn(8)))/in.Bundle + 1) * in.Bundle
			if in.Mode == "num" && (in.Start < 0 || uint64(in.Start) > hubHeadNum || uint64(in.Start) < in.Root.Num) {
				// a negative start is resolved against the head of a hub that is not ready (0): it would fall below the
				// first merged file of this scenario
				in.Start = int64(in.Root.Num) + int64(r.Intn(span+1))
			}
			in.Stop = 0
			if r.Chance(30) {
				in.Stop = in.Merged + uint64(2+r.Intn(6))
			}
			in.Pauses = []c07Pause{{After: 1 + r.Intn(10), Push: 3 + r.Intn(6)}}
			if r.Chance(50) {
				in.Pauses = append(in.Pauses, c07Pause{After: 6 + r.Intn(15), Push: 2 + r.Intn(6)})
			}
			in.Shape += "/lagging-hub"
		}
		if in.Mode != "num" && r.Chance(18) {
			// the cursor comes from a server that was ahead of this hub
			in.CurAhead = 1 + r.Intn(6)
			in.Shape += "/cursor-ahead"
		}
		if in.Filter == "final" && in.Mode != "num" && r.Chance(25) {
			// W3: final-blocks-only must REFUSE a cursor that is not on a final block; the generator only ever drew final
			// cursors for this filter, so the refusal clause of c13_prop was never evaluated under its guard
			in.NonFinal = true
			in.Shape += "/non-final-cursor"
		}
		// seeded mutant C13-m8: the start-after-stop refusal is about the RESOLVED start (a negative start resolved against
		// the hub's head, a start below the first streamable block clamped to it), so the raw start is at or below the stop
		// block while the resolved one is above it. Drawn last: the other cases are those of the earlier rounds.
		if prop == "C13" && in.Mode == "num" && !filesOnly && !strings.Contains(in.Shape, "lagging-hub") && r.Chance(12) {
			if in.First == in.Root.Num && in.First >= 2 && r.Chance(50) {
				in.Start = int64(r.Intn(int(in.First)))
				in.Stop = uint64(in.Start) + uint64(r.Intn(int(in.First)-int(in.Start)))
				if in.Stop == 0 {
					in.Stop = 1
				}
				in.Shape += "/resolved-start-after-stop"
			} else if span >= 3 {
				d := 1 + r.Intn(span-2) // never 0: a start of 0 is not a negative start (it would be a start below the first merged file)
				resolved := hubHeadNum - uint64(d)
				in.Start = -int64(d)
				in.Stop = resolved - uint64(1+r.Intn(2))
				if in.Stop == 0 {
					in.Stop = 1
				}
				in.Shape += "/resolved-start-after-stop"
			}
		}
		return in
	}
}

func c07Exec(raw json.RawMessage) (*Case, error) {
	var in c07Input
	if err := json.Unmarshal(raw, &in); err != nil {
		return nil, err
	}
	obs := c07Run(&in)
	cs := &Case{Obs: obs, Key: string(raw)}
	if obs.Skip != "" {
		cs.Class = "skip/" + obs.Skip
		cs.Coq = "C07Skip"
		return cs, nil
	}
	cur := "None"
	if obs.Cursor != nil {
		cur = "(Some " + coqBrCursor(*obs.Cursor) + ")"
	}
	filt := map[string]int{"default": 0, "final": 1, "custom": 2}[in.Filter]
	pushed := make([]uint64, len(obs.Pushed))
	for i, p := range obs.Pushed {
		pushed[i] = uint64(p)
	}
	pauses := make([]string, len(in.Pauses))
	ps := append([]c07Pause{}, in.Pauses...)
	sort.SliceStable(ps, func(i, j int) bool { return ps[i].After < ps[j].After })
	for i, p := range ps {
		pauses[i] = fmt.Sprintf("(%d, %d)", p.After, p.Push)
	}
	cs.Coq = fmt.Sprintf("mkC07 %d %d %d %s %s %d %d %d %d %s %s %s %d %d %d %s %s %s %s %s %d %d",
		in.First, in.Kept, in.Bundle, coqFkBlock(in.Root), coqBlocks(in.Arrival), in.A0, in.HubStart, in.Merged,
		map[string]int{"num": 0, "cursor": 1, "target": 2}[in.Mode], coqZ(in.Start), cur, coqEvents(obs.Live),
		in.Stop, filt, in.Custom, coqList(pauses), coqBlocks(obs.Canon), coqBlocks(obs.Forked), coqEvents(obs.Events), coqNList(pushed), obs.Err, obs.Altered)
	joinInfo := "live-only"
	if len(obs.Events) > 0 {
		first := obs.Events[0]
		if first.Blk.Num < obs.HubLowest {
			joinInfo = "files-then-live"
		}
	}
	cs.Class = fmt.Sprintf("%s/err%d/%s", in.Shape, obs.Err, joinInfo)
	cs.Nontrivial = len(obs.Events) > 0
	return cs, nil
}

// c07Corpus: fixed scenarios that always run first
func c07Corpus(prop string) func() []any {
	return func() []any {
		// the hub becomes ready while the file source is past the fork point, sitting on the fork 13 <- 114 <- 115, while
		// the merged files already hold the final blocks 14 and 15: the join must not be made on the hub's block NUMBER 15
		// (found by the proof of c07_seamless_num: hypothesis files_agree, theorem c07_files_agree_needed)
		b := func(n uint64) fkBlock { return fkBlock{ID: n, Num: n, Parent: n - 1, Lib: n - 2} }
		var arr []fkBlock
		for n := uint64(3); n <= 13; n++ {
			arr = append(arr, b(n))
		}
		arr = append(arr, fkBlock{ID: 114, Num: 14, Parent: 13, Lib: 12}, fkBlock{ID: 115, Num: 15, Parent: 114, Lib: 13})
		for n := uint64(14); n <= 24; n++ {
			arr = append(arr, b(n))
		}
		// the hub starts with the one-block files 12 and the live block 13 (declared LIB 11 unknown: not ready); after 10
		// delivered events (5..14) the fork blocks 114 and 115 arrive: ready, head 115, LIB 13
		joinOnFork := &c07Input{Prop: prop, First: 2, Kept: 5, Bundle: 10, Root: b(2), Arrival: arr, A0: 11, HubStart: 12, Merged: 20,
			Mode: "num", Start: 5, Filter: "default", Pauses: []c07Pause{{After: 10, Push: 2}, {After: 12, Push: 8}}, Shape: "corpus/join-on-fork"}
		// final blocks only, the join happens ABOVE the hub's LIB: linear chain 2..14, block n declares n-4 final; merged files
		// hold 2..11; the hub starts with block 8 alone (not ready); after 6 delivered events (5..10) blocks 9..12 arrive: ready,
		// LIB 8; the file block 11 joins (burst New 11, New 12: not final); 13 and 14 arrive: the hub announces 9 and 10 as
		// irreversible - blocks the files already delivered.  Each final block must be delivered once
		// (found by the proof of c07_seamless_num_final: hypothesis files_final, theorem c07_final_only_refuted)
		lag := func(n uint64) fkBlock {
			lib := uint64(0)
			if n >= 4 {
				lib = n - 4
			}
			return fkBlock{ID: n, Num: n, Parent: n - 1, Lib: lib}
		}
		var arr2 []fkBlock
		for n := uint64(3); n <= 14; n++ {
			arr2 = append(arr2, lag(n))
		}
		finalAboveLib := &c07Input{Prop: prop, First: 2, Kept: 5, Bundle: 4, Root: lag(2), Arrival: arr2, A0: 6, HubStart: 8, Merged: 12,
			Mode: "num", Start: 5, Filter: "final", Pauses: []c07Pause{{After: 6, Push: 4}}, Shape: "corpus/final-only-join-above-hub-lib"}
		// final blocks only, resumed from a FINAL cursor that is ahead of the hub's LIB (the consumer was connected to a server
		// that had seen 4 more blocks): linear chain 2..20, block n declares n-4 final; the hub holds 6..14 (LIB 10), the cursor
		// is {irreversible, 12, LIB 12}. The hub serves it; when 15 and 16 arrive it announces 11 and 12 as irreversible -
		// blocks the consumer already holds. Nothing at or below the cursor block may be delivered
		// (found by the proof of c07_seamless_cursor_final: theorem c07_final_cursor_refuted)
		var arr3 []fkBlock
		for n := uint64(3); n <= 20; n++ {
			arr3 = append(arr3, lag(n))
		}
		finalCursorAhead := &c07Input{Prop: prop, First: 2, Kept: 5, Bundle: 4, Root: lag(2), Arrival: arr3, A0: 12, HubStart: 6, Merged: 8,
			Mode: "cursor", Start: 2, Filter: "final", CurAhead: 2, KSel: 9, Shape: "corpus/final-only-cursor-ahead-of-hub-lib"}
		// the join-on-fork world in TARGET-cursor mode with the target cursor below the join point (it "has already passed"):
		// the hub then answers as for a block number, and the join must be made on the block's identity there too
		// (found by the proof of c07_seamless_target_nu: hypothesis files_on_hub, theorem c07_target_join_by_number_refuted).
		// Cursor {New, block 8} (ksel 5) and {New, block 13} (ksel 10) of the reference stream
		targetJoinOnFork8 := &c07Input{Prop: prop, First: 2, Kept: 5, Bundle: 10, Root: b(2), Arrival: arr, A0: 11, HubStart: 12, Merged: 20,
			Mode: "target", Start: 5, KSel: 5, Filter: "default", Pauses: []c07Pause{{After: 10, Push: 2}, {After: 12, Push: 8}}, Shape: "corpus/target-join-on-fork"}
		targetJoinOnFork13 := &c07Input{Prop: prop, First: 2, Kept: 5, Bundle: 10, Root: b(2), Arrival: arr, A0: 11, HubStart: 12, Merged: 20,
			Mode: "target", Start: 5, KSel: 10, Filter: "default", Pauses: []c07Pause{{After: 10, Push: 2}, {After: 12, Push: 8}}, Shape: "corpus/target-join-on-fork"}
		// final blocks only THROUGH a target cursor, start block below the cursor block: every final block from the start
		// block on, also those at or below the cursor block (seeded mutant C07-m5: the filter's memory must not start at a
		// TARGET cursor)
		finalTarget := &c07Input{Prop: prop, First: 2, Kept: 5, Bundle: 4, Root: lag(2), Arrival: arr2, A0: 12, HubStart: 6, Merged: 8,
			Mode: "target", Start: 4, Filter: "final", KSel: 5, Shape: "corpus/final-only-target-start-below-cursor"}
		// target-cursor mode with the cursor block stored OFF the hub's current chain (the branch of blocksThroughCursor that
		// answers with the cursor's own branch and then as blocksFromCursor does; theorem c07_seamless_target): the hub holds
		// 6..14 and the fork 13 <- 114 <- 115 (head 115, LIB 13, lowest 8); the files hold 2..9; target cursor {New 14}
		// (ksel 11) resp. {Undo 14} (ksel 12); the join at 8 brings 8..14, Undo 14, New 114, New 115 (resp. 8..13, New 114,
		// New 115); after 12 events the canonical 15..24 arrive and the hub reorganises back
		var arr5 []fkBlock
		for n := uint64(3); n <= 14; n++ {
			arr5 = append(arr5, b(n))
		}
		arr5 = append(arr5, fkBlock{ID: 114, Num: 14, Parent: 13, Lib: 12}, fkBlock{ID: 115, Num: 15, Parent: 114, Lib: 13})
		for n := uint64(15); n <= 24; n++ {
			arr5 = append(arr5, b(n))
		}
		targetOffChainNew := &c07Input{Prop: prop, First: 2, Kept: 5, Bundle: 10, Root: b(2), Arrival: arr5, A0: 14, HubStart: 6, Merged: 10,
			Mode: "target", Start: 5, KSel: 11, Filter: "default", Pauses: []c07Pause{{After: 12, Push: 10}}, Shape: "corpus/target-cursor-off-chain"}
		targetOffChainUndo := &c07Input{Prop: prop, First: 2, Kept: 5, Bundle: 10, Root: b(2), Arrival: arr5, A0: 14, HubStart: 6, Merged: 10,
			Mode: "target", Start: 5, KSel: 12, Filter: "default", Pauses: []c07Pause{{After: 12, Push: 10}}, Shape: "corpus/target-cursor-off-chain"}
		// ---- W3 (conclusion audit): bounds of C13 that generated cases met rarely or never
		// a start below the first streamable block (positive, and negative beyond the head) resolves to the first streamable block
		// (chain 8..20, first streamable block 8, bundles of 4: the bundle of block 0 does not exist, so an unclamped start would
		// make the file source wait for a file that never comes)
		var arr4 []fkBlock
		for n := uint64(9); n <= 20; n++ {
			arr4 = append(arr4, lag(n))
		}
		belowFirst := &c07Input{Prop: prop, First: 8, Kept: 5, Bundle: 4, Root: lag(8), Arrival: arr4, A0: 12, HubStart: 12, Merged: 16,
			Mode: "num", Start: 0, Filter: "default", Shape: "corpus/start-below-first-streamable"}
		negBeyondHead := &c07Input{Prop: prop, First: 8, Kept: 5, Bundle: 4, Root: lag(8), Arrival: arr4, A0: 12, HubStart: 12, Merged: 16,
			Mode: "num", Start: -1000, Filter: "default", Shape: "corpus/negative-start-beyond-head"}
		// a negative start resolves to head minus the distance: head 14, start -3 = 11 (inside the hub window), -9 = 5 (in the files)
		negLive := &c07Input{Prop: prop, First: 2, Kept: 5, Bundle: 4, Root: lag(2), Arrival: arr2, A0: 12, HubStart: 6, Merged: 8,
			Mode: "num", Start: -3, Filter: "default", Shape: "corpus/negative-start-live"}
		negFiles := &c07Input{Prop: prop, First: 2, Kept: 5, Bundle: 4, Root: lag(2), Arrival: arr2, A0: 12, HubStart: 10, Merged: 12,
			Mode: "num", Start: -9, Filter: "final", Shape: "corpus/negative-start-files-final"}
		// final blocks only from a New cursor: refused as an invalid argument
		finalNonFinalCursor := &c07Input{Prop: prop, First: 2, Kept: 5, Bundle: 4, Root: lag(2), Arrival: arr2, A0: 12, HubStart: 6, Merged: 8,
			Mode: "cursor", Start: 2, Filter: "final", NonFinal: true, KSel: 5, Shape: "corpus/final-only-non-final-cursor"}
		// the stop block is reached in the FILES while the step filter removes every event (Undo only): the stop-block handler never
		// sees block 6; the file source's own stop marker must surface as stop-block-reached
		stopInFilesFiltered := &c07Input{Prop: prop, First: 2, Kept: 5, Bundle: 4, Root: lag(2), Arrival: arr3, A0: 18, HubStart: 14, Merged: 12,
			Mode: "num", Start: 3, Stop: 6, Filter: "custom", Custom: 2, Shape: "corpus/stop-in-files-all-filtered"}
		// start after stop: invalid argument, also when the start is only after the stop once clamped at the first streamable block
		startAfterStop := &c07Input{Prop: prop, First: 2, Kept: 5, Bundle: 4, Root: lag(2), Arrival: arr2, A0: 12, HubStart: 6, Merged: 8,
			Mode: "num", Start: 9, Stop: 8, Filter: "default", Shape: "corpus/start-after-stop"}
		// known finding C13-target-cursor-beyond-stop: start 5, stop 7, target cursor {new 10, LIB 5}; the hub is not ready: the
		// stream is served from the files (2..11), which hold back 6.. until the cursor block 10 and are read only up to the bundle of 7
		var arr6 []fkBlock
		for n := uint64(3); n <= 20; n++ {
			arr6 = append(arr6, lag(n))
		}
		targetBeyondStop := &c07Input{Prop: prop, First: 2, Kept: 5, Bundle: 4, Root: lag(2), Arrival: arr6, A0: 12, HubStart: 12, Merged: 12,
			Mode: "target", Start: 5, Stop: 7, KSel: 7, Filter: "default", Shape: "corpus/target-cursor-beyond-stop"}
		return []any{joinOnFork, finalAboveLib, finalCursorAhead, finalTarget, targetJoinOnFork8, targetJoinOnFork13, targetOffChainNew, targetOffChainUndo,
			belowFirst, negBeyondHead, negLive, negFiles, finalNonFinalCursor, stopInFilesFiltered, startAfterStop, targetBeyondStop}
	}
}

func init() {
	props["C07"] = &Prop{Gen: c07Gen("C07"), Exec: c07Exec, Corpus: c07Corpus("C07")}
	props["C13"] = &Prop{Gen: c07Gen("C13"), Exec: c07Exec, Corpus: c07Corpus("C13")}
}
