package main

import (
	"encoding/json"
	"fmt"
	"strings"

	"github.com/streamingfast/bstream"
)

// C14: cursor text and opaque encodings.

type c14Ref struct {
	ID  string `json:"id"`
	Num uint64 `json:"num"`
}
type c14Input struct {
	Kind  string `json:"kind"` // "cur" | "str" | "opq"
	Step  int    `json:"step,omitempty"`
	Block c14Ref `json:"block,omitempty"`
	Head  c14Ref `json:"head,omitempty"`
	LIB   c14Ref `json:"lib,omitempty"`
	Text  []byte `json:"text,omitempty"` // raw bytes (base64 in JSON)
}
type c14Cur struct {
	Step  int    `json:"step"`
	Block c14Ref `json:"block"`
	Head  c14Ref `json:"head"`
	LIB   c14Ref `json:"lib"`
}
type c14Obs struct {
	Str   []byte  `json:"str,omitempty"`
	Dec   *c14Cur `json:"dec"`
	Re    *c14Cur `json:"re"`
	Opq   *c14Cur `json:"opq"`
	Panic string  `json:"panic,omitempty"`
}

func c14FromCursor(c *bstream.Cursor) *c14Cur {
	if c == nil {
		return nil
	}
	return &c14Cur{Step: int(c.Step),
		Block: c14Ref{c.Block.ID(), c.Block.Num()},
		Head:  c14Ref{c.HeadBlock.ID(), c.HeadBlock.Num()},
		LIB:   c14Ref{c.LIB.ID(), c.LIB.Num()}}
}

func coqRef(r c14Ref) string { return fmt.Sprintf("(mkRef %s %d)", coqBytes(r.ID), r.Num) }
func coqCur(c *c14Cur) string {
	step := c.Step
	if step < 0 {
		step = 0 // unreachable for decoded cursors (whitelist); inputs never use negatives
	}
	return fmt.Sprintf("(mkCur %d %s %s %s)", step, coqRef(c.Block), coqRef(c.Head), coqRef(c.LIB))
}
func coqOptCur(c *c14Cur) string {
	if c == nil {
		return "None"
	}
	return "(Some " + coqCur(c) + ")"
}

var c14Heights = []uint64{0, 1, 2, 9, 10, 99, 100, 12345, 1<<32 - 1, 1 << 32, 1<<32 + 1, 1<<63 - 1, 1 << 63, 1<<64 - 2, 1<<64 - 1}
var c14Steps = []int{1, 2, 16, 17}

func c14ID(r *Rng) string {
	switch r.Intn(10) {
	case 0:
		return ""
	case 1:
		return "héllo-ünicode"
	case 2:
		return "a-b-c"
	case 3:
		return fmt.Sprintf("%x", r.U64())
	case 4:
		return "0"
	case 5:
		return "c1"
	default:
		return fmt.Sprintf("%016x%04x", r.U64(), r.Intn(65536))
	}
}

func c14Height(r *Rng) uint64 {
	if r.Chance(60) {
		return r.Pick(c14Heights)
	}
	switch r.Intn(3) {
	case 0:
		return r.U64()
	case 1:
		return r.U64() >> uint(r.Intn(64))
	default:
		return uint64(r.Intn(100000))
	}
}

func c14GenCursor(r *Rng) c14Input {
	in := c14Input{Kind: "cur", Step: c14Steps[r.Intn(4)]}
	in.Block = c14Ref{c14ID(r), c14Height(r)}
	in.Head = c14Ref{c14ID(r), c14Height(r)}
	in.LIB = c14Ref{c14ID(r), c14Height(r)}
	// five aliasing patterns: none, head=block, block=lib, head=lib, all equal
	switch r.Intn(6) {
	case 0:
	case 1:
		in.Head = in.Block
	case 2:
		in.LIB = in.Block
	case 3:
		in.LIB = in.Head
	case 4:
		in.Head = in.Block
		in.LIB = in.Block
	case 5:
		// same id, different height: outside "equal ids imply equal heights"; model-only comparison
		in.Head.ID = in.Block.ID
	}
	return in
}

func c14Mutate(r *Rng, s string) string {
	parts := strings.Split(s, ":")
	switch r.Intn(14) {
	case 0: // drop a segment
		i := r.Intn(len(parts))
		parts = append(parts[:i], parts[i+1:]...)
	case 1: // add a segment
		i := r.Intn(len(parts) + 1)
		parts = append(parts[:i], append([]string{[]string{"", "0", "x", "17"}[r.Intn(4)]}, parts[i:]...)...)
	case 2:
		parts[1] = []string{"+1", "-0", "007", "0", "3", "32", "-1", "+17", "1 ", "0x1", "1_6", "", "99999999999999999999"}[r.Intn(13)]
	case 3:
		i := 2
		if len(parts) > 4 && r.Bool() {
			i = 4
		}
		parts[i] = []string{"18446744073709551616", "18446744073709551615", "+5", "-5", "", "0005", "5a", " 5", "1e3", "٣", "99999999999999999999999999"}[r.Intn(11)]
	case 4:
		parts[0] = []string{"c0", "c4", "C1", "c", "", "c11", "c1", "c2", "c3"}[r.Intn(9)]
	case 5: // random byte flip
		b := []byte(s)
		if len(b) > 0 {
			b[r.Intn(len(b))] = byte(r.Intn(256))
		}
		return string(b)
	case 6:
		return s + ":"
	case 7:
		return ":" + s
	case 8:
		return strings.Repeat(":", r.Intn(10))
	case 9:
		return s[:r.Intn(len(s)+1)]
	case 10:
		b := make([]byte, r.Intn(40))
		for i := range b {
			b[i] = byte(r.Intn(256))
		}
		return string(b)
	case 11:
		return ""
	case 12: // swap prefix keeping segments
		parts[0] = []string{"c1", "c2", "c3"}[r.Intn(3)]
	case 13:
		return s
	}
	return strings.Join(parts, ":")
}

func c14Gen(r *Rng, i int, tier string) any {
	switch {
	case i%5 <= 1:
		return c14GenCursor(r)
	case i%5 <= 3:
		base := c14GenCursor(r)
		c := &bstream.Cursor{Step: bstream.StepType(base.Step),
			Block: bstream.NewBlockRef(base.Block.ID, base.Block.Num), HeadBlock: bstream.NewBlockRef(base.Head.ID, base.Head.Num),
			LIB: bstream.NewBlockRef(base.LIB.ID, base.LIB.Num)}
		return c14Input{Kind: "str", Text: []byte(c14Mutate(r, c.String()))}
	default:
		base := c14GenCursor(r)
		c := &bstream.Cursor{Step: bstream.StepType(base.Step),
			Block: bstream.NewBlockRef(base.Block.ID, base.Block.Num), HeadBlock: bstream.NewBlockRef(base.Head.ID, base.Head.Num),
			LIB: bstream.NewBlockRef(base.LIB.ID, base.LIB.Num)}
		o := c.ToOpaque()
		switch r.Intn(4) {
		case 0:
			b := []byte(o)
			if len(b) > 0 {
				b[r.Intn(len(b))] = "ABCDEFabcdef0123456789-_=+/ "[r.Intn(28)]
			}
			o = string(b)
		case 1:
			o = o[:r.Intn(len(o)+1)]
		case 2:
			b := make([]byte, r.Intn(60))
			for i := range b {
				b[i] = byte(r.Intn(256))
			}
			o = string(b)
		}
		return c14Input{Kind: "opq", Text: []byte(o)}
	}
}

func c14Exec(raw json.RawMessage) (cs *Case, err error) {
	var in c14Input
	if err := json.Unmarshal(raw, &in); err != nil {
		return nil, err
	}
	obs := &c14Obs{}
	func() {
		defer func() {
			if p := recover(); p != nil {
				obs.Panic = fmt.Sprint(p)
			}
		}()
		switch in.Kind {
		case "cur":
			c := &bstream.Cursor{Step: bstream.StepType(in.Step),
				Block: bstream.NewBlockRef(in.Block.ID, in.Block.Num), HeadBlock: bstream.NewBlockRef(in.Head.ID, in.Head.Num),
				LIB: bstream.NewBlockRef(in.LIB.ID, in.LIB.Num)}
			s := c.String()
			obs.Str = []byte(s)
			if d, err := bstream.FromString(s); err == nil {
				obs.Dec = c14FromCursor(d)
			}
			if d, err := bstream.CursorFromOpaque(c.ToOpaque()); err == nil {
				obs.Opq = c14FromCursor(d)
			}
		case "str":
			if d, err := bstream.FromString(string(in.Text)); err == nil {
				obs.Dec = c14FromCursor(d)
				if d2, err := bstream.FromString(d.String()); err == nil {
					obs.Re = c14FromCursor(d2)
				}
			}
		case "opq":
			if d, err := bstream.CursorFromOpaque(string(in.Text)); err == nil {
				obs.Dec = c14FromCursor(d)
				if d2, err := bstream.FromString(d.String()); err == nil {
					obs.Re = c14FromCursor(d2)
				}
			}
		}
	}()
	cs = &Case{Class: in.Kind, Obs: obs}
	panicked := obs.Panic != ""
	switch in.Kind {
	case "cur":
		c := &c14Cur{in.Step, in.Block, in.Head, in.LIB}
		cs.Coq = fmt.Sprintf("CCur %s %s %s %s %s", coqCur(c), coqBytes(string(obs.Str)), coqOptCur(obs.Dec), coqOptCur(obs.Opq), coqBool(panicked))
		alias := "a"
		if in.Head.ID == in.Block.ID {
			alias += "H"
		}
		if in.LIB.ID == in.Block.ID {
			alias += "L"
		}
		if in.LIB.ID == in.Head.ID {
			alias += "X"
		}
		cs.Class = fmt.Sprintf("cur/step%d/%s", in.Step, alias)
		cs.Nontrivial = true
		cs.Key = string(obs.Str)
	case "str":
		cs.Coq = fmt.Sprintf("CStr %s %s %s %s", coqBytes(string(in.Text)), coqOptCur(obs.Dec), coqOptCur(obs.Re), coqBool(panicked))
		if obs.Dec != nil {
			cs.Class = "str/accepted"
		} else {
			cs.Class = "str/rejected"
		}
		cs.Nontrivial = len(in.Text) > 0
		cs.Key = "s:" + string(in.Text)
	case "opq":
		cs.Coq = fmt.Sprintf("COpq %s %s %s", coqOptCur(obs.Dec), coqOptCur(obs.Re), coqBool(panicked))
		if obs.Dec != nil {
			cs.Class = "opq/accepted"
		} else {
			cs.Class = "opq/rejected"
		}
		cs.Nontrivial = len(in.Text) > 0
		cs.Key = "o:" + string(in.Text)
	}
	if panicked {
		cs.Class += "/panic"
	}
	return cs, nil
}

func init() {
	props["C14"] = &Prop{Gen: c14Gen, Exec: c14Exec, Corpus: func() []any {
		return []any{
			c14Input{Kind: "str", Text: []byte("c1:+1:5:aa:3:bb")},
			c14Input{Kind: "str", Text: []byte("c3:1:5:aa:7:aa:3:bb")},
			c14Input{Kind: "str", Text: []byte("c1:1:18446744073709551616:aa:3:bb")},
			c14Input{Kind: "str", Text: []byte("c1:1:5::3:")},
			c14Input{Kind: "cur", Step: 17, Block: c14Ref{"", 0}, Head: c14Ref{"", 0}, LIB: c14Ref{"", 0}},
		}
	}}
}
