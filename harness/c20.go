package main

import (
	"encoding/json"
	"fmt"
	"math"
	"runtime"
	"strconv"
	"sync"
	"sync/atomic"
	"time"

	"github.com/streamingfast/bstream/blockstream"
	pbbstream "github.com/streamingfast/bstream/pb/sf/bstream/v1"
	"google.golang.org/protobuf/types/known/timestamppb"
)

// C20: block-stream server fan-out.  The real blockstream.Server (unmanaged, no gRPC) is driven
// through PushBlock / Ready and, via the verif hooks, its real subscribe / unsubscribe /
// newSubscription / subscription channel.
//
//   kind "seq":  one sequential operation sequence; every operation's observation is compared
//                with the Coq model and checked by the boolean form of the property.
//   kind "conc": goroutines (one producer, subscribers that subscribe at some instant, consume at
//                their own speed and possibly unsubscribe); checked by the property checker only.

type c20Op struct {
	T     string `json:"t"` // push | sub | att | unsub | cons
	ID    uint64 `json:"id,omitempty"`
	Burst int64  `json:"burst,omitempty"`
	Cap   int    `json:"cap,omitempty"`
	K     int    `json:"k,omitempty"`
}

type c20ConcSub struct {
	Burst      int64 `json:"burst"`
	Speed      int   `json:"speed"`       // 0 never reads before the end, 1 slow, 2 as fast as possible
	StartAfter int   `json:"start_after"` // subscribes once the producer has pushed that many blocks
	UnsubAfter int   `json:"unsub_after"` // unsubscribes after having received that many blocks; -1 never
}

type c20Input struct {
	Kind     string       `json:"kind"`
	Buffered bool         `json:"buffered"`
	Size     int64        `json:"size"`
	Ops      []c20Op      `json:"ops,omitempty"`
	Pushes   []uint64     `json:"pushes,omitempty"`
	Subs     []c20ConcSub `json:"subs,omitempty"`
	Yield    int          `json:"yield,omitempty"` // the producer yields every Yield pushes (0: never)
}

type c20OpObs struct {
	K      string   `json:"k"` // push | sub | nil | unsub | got | empty | closed | panic
	Win    []uint64 `json:"win,omitempty"`
	Ready  bool     `json:"ready,omitempty"`
	Handle int      `json:"handle,omitempty"`
	Cap    int      `json:"cap,omitempty"`
	Len    int      `json:"len,omitempty"`
	Count  int      `json:"count,omitempty"`
	ID     uint64   `json:"id,omitempty"`
}

type c20SubObs struct {
	Queue  []uint64 `json:"queue"`
	Closed bool     `json:"closed"`
	Cap    int      `json:"cap"`
	// conc only
	Burst int64    `json:"burst,omitempty"`
	Recv  []uint64 `json:"recv,omitempty"`
	Unsub bool     `json:"unsub,omitempty"`
}

type c20Obs struct {
	Ops   []c20OpObs  `json:"ops,omitempty"`
	Subs  []c20SubObs `json:"subs"`
	Win   []uint64    `json:"win,omitempty"`
	Ready bool        `json:"ready,omitempty"`
	Panic string      `json:"panic,omitempty"`
	Hang  bool        `json:"hang,omitempty"`
}

// per-case watchdog: a sequential case takes microseconds and a stress run milliseconds; once a
// few cases have hung (their goroutines stay blocked) the following ones wait less
var c20Hangs int32

func c20Watchdog() time.Duration {
	if atomic.LoadInt32(&c20Hangs) >= 3 {
		return 300 * time.Millisecond
	}
	return 8 * time.Second
}

func c20OuterWatchdog(kind string) time.Duration {
	if kind == "conc" { // two watched phases inside
		return 2*c20Watchdog() + time.Second
	}
	return c20Watchdog()
}

var c20Time = timestamppb.New(time.Unix(1600000000, 0))

func c20Block(id uint64) *pbbstream.Block {
	return &pbbstream.Block{Id: strconv.FormatUint(id, 10), Number: id, Timestamp: c20Time}
}

func c20ID(s string) uint64 {
	v, err := strconv.ParseUint(s, 10, 64)
	if err != nil {
		return math.MaxUint64 // never generated: shows up as a mismatch
	}
	return v
}

func c20Server(buffered bool, size int64) *blockstream.Server {
	if buffered {
		return blockstream.NewUnmanagedServer(blockstream.ServerOptionWithBuffer(int(size)))
	}
	return blockstream.NewUnmanagedServer()
}

func c20Window(s *blockstream.Server) []uint64 {
	ids, _ := s.VerifWindow()
	out := make([]uint64, 0, len(ids))
	for _, id := range ids {
		out = append(out, c20ID(id))
	}
	return out
}

// ---------------------------------------------------------------- sequential execution

func c20RunSeq(in *c20Input, obs *c20Obs) {
	s := c20Server(in.Buffered, in.Size)
	var handles []*blockstream.VerifSub
	panicked := false
	for _, op := range in.Ops {
		var o c20OpObs
		func() {
			defer func() {
				if p := recover(); p != nil {
					obs.Panic = fmt.Sprint(p)
					o = c20OpObs{K: "panic"}
					panicked = true
				}
			}()
			switch op.T {
			case "push":
				if err := s.PushBlock(c20Block(op.ID)); err != nil {
					panic("PushBlock failed: " + err.Error())
				}
				o = c20OpObs{K: "push", Win: c20Window(s), Ready: s.Ready()}
			case "sub":
				v := s.VerifSubscribe(int(op.Burst))
				if v == nil {
					o = c20OpObs{K: "nil"}
				} else {
					handles = append(handles, v)
					o = c20OpObs{K: "sub", Handle: len(handles) - 1, Cap: v.Cap(), Len: v.Len()}
				}
			case "att":
				v := s.VerifAttach(op.Cap)
				handles = append(handles, v)
				o = c20OpObs{K: "sub", Handle: len(handles) - 1, Cap: v.Cap(), Len: v.Len()}
			case "unsub":
				if op.K >= 0 && op.K < len(handles) {
					s.VerifUnsubscribe(handles[op.K])
				}
				o = c20OpObs{K: "unsub", Count: s.VerifSubscriptionCount()}
			case "cons":
				o = c20OpObs{K: "empty"}
				if op.K >= 0 && op.K < len(handles) {
					blk, got, closed := handles[op.K].TryRecv()
					if got {
						o = c20OpObs{K: "got", ID: c20ID(blk.Id)}
					} else if closed {
						o = c20OpObs{K: "closed"}
					}
				}
			}
		}()
		obs.Ops = append(obs.Ops, o)
		if panicked {
			return
		}
	}
	for _, h := range handles {
		so := c20SubObs{Queue: []uint64{}, Closed: h.ClosedFlag(), Cap: h.Cap()}
		for {
			blk, got, _ := h.TryRecv()
			if !got {
				break
			}
			so.Queue = append(so.Queue, c20ID(blk.Id))
		}
		obs.Subs = append(obs.Subs, so)
	}
}

// ---------------------------------------------------------------- concurrent stress

func c20RunConc(in *c20Input, obs *c20Obs) {
	s := c20Server(true, in.Size)
	var pushed int64
	var prodDone int32
	var mu sync.Mutex
	setPanic := func(p any) {
		mu.Lock()
		if obs.Panic == "" {
			obs.Panic = fmt.Sprint(p)
		}
		mu.Unlock()
	}
	done := make(chan struct{})
	var wg sync.WaitGroup
	subs := make([]c20SubObs, len(in.Subs))

	wg.Add(1)
	go func() { // the producer
		defer wg.Done()
		defer atomic.StoreInt32(&prodDone, 1)
		defer func() {
			if p := recover(); p != nil {
				setPanic(p)
			}
		}()
		for i, id := range in.Pushes {
			if err := s.PushBlock(c20Block(id)); err != nil {
				panic("PushBlock failed: " + err.Error())
			}
			atomic.AddInt64(&pushed, 1)
			if in.Yield > 0 && i%in.Yield == 0 {
				runtime.Gosched()
			}
		}
	}()

	for i := range in.Subs {
		wg.Add(1)
		go func(i int) {
			defer wg.Done()
			defer func() {
				if p := recover(); p != nil {
					setPanic(p)
				}
			}()
			cfg := in.Subs[i]
			so := &subs[i]
			so.Burst = cfg.Burst
			so.Queue = []uint64{}
			for atomic.LoadInt64(&pushed) < int64(cfg.StartAfter) && atomic.LoadInt32(&prodDone) == 0 {
				runtime.Gosched()
			}
			v := s.VerifSubscribe(int(cfg.Burst))
			if v == nil {
				panic("subscribe returned nil")
			}
			so.Cap = v.Cap()
			unsubscribed := false
			take := func(blk *pbbstream.Block) {
				so.Recv = append(so.Recv, c20ID(blk.Id))
				if !unsubscribed && cfg.UnsubAfter >= 0 && len(so.Recv) >= cfg.UnsubAfter {
					s.VerifUnsubscribe(v)
					unsubscribed = true
					so.Unsub = true
				}
			}
			if cfg.UnsubAfter == 0 {
				s.VerifUnsubscribe(v)
				unsubscribed = true
				so.Unsub = true
			}
			stop := false
			for !stop && !so.Closed && cfg.Speed > 0 {
				select {
				case blk, ok := <-v.Chan():
					if !ok {
						so.Closed = true
					} else {
						take(blk)
						if cfg.Speed == 1 {
							time.Sleep(30 * time.Microsecond)
						}
					}
				case <-done:
					stop = true
				}
			}
			if !so.Closed {
				<-done // the producer has returned: drain what is left
				for {
					blk, got, closed := v.TryRecv()
					if closed {
						so.Closed = true
					}
					if !got {
						break
					}
					take(blk)
				}
			}
		}(i)
	}

	// the producer must return on its own, whatever the consumers do
	deadline := time.After(c20Watchdog())
	tick := time.NewTicker(200 * time.Microsecond)
	defer tick.Stop()
wait:
	for {
		select {
		case <-tick.C:
			if atomic.LoadInt32(&prodDone) == 1 {
				break wait
			}
		case <-deadline:
			obs.Hang = true
			atomic.StoreInt32(&prodDone, 2) // releases the subscribers waiting for their start instant
			close(done)
			return // the blocked producer goroutine is abandoned
		}
	}
	// let late subscribers (start_after beyond the last push) subscribe, then stop the consumers
	time.Sleep(200 * time.Microsecond)
	close(done)
	fin := make(chan struct{})
	go func() { wg.Wait(); close(fin) }()
	select {
	case <-fin:
	case <-time.After(c20Watchdog()):
		obs.Hang = true
		return
	}
	obs.Subs = subs
	obs.Win = c20Window(s)
	obs.Ready = s.Ready()
}

// ---------------------------------------------------------------- Coq terms


func c20CoqOp(op c20Op) string {
	switch op.T {
	case "push":
		return fmt.Sprintf("OPush %d", op.ID)
	case "sub":
		return "OSubscribe " + coqZ(op.Burst)
	case "att":
		return fmt.Sprintf("OAttach %d", op.Cap)
	case "unsub":
		return fmt.Sprintf("OUnsubscribe %d%%nat", op.K)
	default:
		return fmt.Sprintf("OConsume %d%%nat", op.K)
	}
}

func c20CoqObs(o c20OpObs) string {
	switch o.K {
	case "push":
		return fmt.Sprintf("ObPush %s %s", coqNList(o.Win), coqBool(o.Ready))
	case "sub":
		return fmt.Sprintf("ObSub (Some %d%%nat) %d %d", o.Handle, o.Cap, o.Len)
	case "nil":
		return "ObSub None 0 0"
	case "unsub":
		return fmt.Sprintf("ObUnsub %d", o.Count)
	case "got":
		return fmt.Sprintf("ObCons (CGot %d)", o.ID)
	case "empty":
		return "ObCons CEmpty"
	case "closed":
		return "ObCons CClosed"
	default:
		return "ObPanic"
	}
}

func c20Exec(raw json.RawMessage) (*Case, error) {
	var in c20Input
	if err := json.Unmarshal(raw, &in); err != nil {
		return nil, err
	}
	for i := range in.Ops { // negative handles / capacities cannot be expressed (nat / N)
		if in.Ops[i].K < 0 {
			in.Ops[i].K = 0
		}
		if in.Ops[i].Cap < 0 {
			in.Ops[i].Cap = 0
		}
	}
	obs := &c20Obs{Subs: []c20SubObs{}}
	finished := make(chan struct{})
	go func() {
		defer close(finished)
		defer func() {
			if p := recover(); p != nil && obs.Panic == "" {
				obs.Panic = fmt.Sprint(p)
			}
		}()
		if in.Kind == "conc" {
			c20RunConc(&in, obs)
		} else {
			c20RunSeq(&in, obs)
		}
	}()
	select {
	case <-finished:
	case <-time.After(c20OuterWatchdog(in.Kind)):
		// an operation never returned (sequential mode): reported as a hang
		obs = &c20Obs{Subs: []c20SubObs{}, Hang: true}
	}
	if obs.Hang {
		atomic.AddInt32(&c20Hangs, 1)
	}

	cs := &Case{Obs: obs}
	bad := obs.Hang || obs.Panic != ""
	if in.Kind == "conc" {
		subs := make([]string, 0, len(obs.Subs))
		nclosed, nunsub := 0, 0
		for _, so := range obs.Subs {
			subs = append(subs, fmt.Sprintf("CSub %s %s %s %s", coqZ(so.Burst), coqNList(so.Recv), coqBool(so.Closed), coqBool(so.Unsub)))
			if so.Closed {
				nclosed++
			}
			if so.Unsub {
				nunsub++
			}
		}
		cs.Coq = fmt.Sprintf("CConc %s %s %s %s %s %s", coqZ(in.Size), coqNList(in.Pushes), coqNList(obs.Win), coqBool(obs.Ready), coqList(subs), coqBool(bad))
		cs.Class = fmt.Sprintf("conc/size%s/%s", c20SizeClass(in.Size), c20Outcome(nclosed > 0, nunsub > 0, bad, obs.Hang))
		cs.Nontrivial = len(in.Pushes) > 0 && len(in.Subs) > 0
		cs.Key = string(raw)
		return cs, nil
	}
	ops := make([]string, 0, len(in.Ops))
	for _, op := range in.Ops {
		ops = append(ops, c20CoqOp(op))
	}
	oo := make([]string, 0, len(obs.Ops))
	for _, o := range obs.Ops {
		oo = append(oo, c20CoqObs(o))
	}
	fin := make([]string, 0, len(obs.Subs))
	anyClosed := false
	for _, so := range obs.Subs {
		fin = append(fin, fmt.Sprintf("SObs %s %s %d", coqNList(so.Queue), coqBool(so.Closed), so.Cap))
		anyClosed = anyClosed || so.Closed
	}
	cs.Coq = fmt.Sprintf("CSeq %s %s %s %s %s %s", coqBool(in.Buffered), coqZ(in.Size), coqList(ops), coqList(oo), coqList(fin), coqBool(obs.Hang))
	anyUnsub, negBurst := false, false
	for _, op := range in.Ops {
		anyUnsub = anyUnsub || op.T == "unsub"
		negBurst = negBurst || (op.T == "sub" && op.Burst < 0)
	}
	b := "buffered"
	if !in.Buffered {
		b = "unbuffered"
	}
	cs.Class = fmt.Sprintf("seq/%s/size%s/%s", b, c20SizeClass(in.Size), c20Outcome(anyClosed, anyUnsub, bad, obs.Hang))
	if negBurst {
		cs.Class += "/negburst"
	}
	cs.Nontrivial = len(in.Ops) > 0
	cs.Key = string(raw)
	return cs, nil
}

func c20SizeClass(size int64) string {
	switch {
	case size < 0:
		return "neg"
	case size <= 8:
		return strconv.FormatInt(size, 10)
	default:
		return "big"
	}
}

func c20Outcome(closed, unsub, bad, hang bool) string {
	switch {
	case hang:
		return "hang"
	case bad:
		return "panic"
	case closed && unsub:
		return "overflow+unsub"
	case closed:
		return "overflow"
	case unsub:
		return "unsub"
	default:
		return "plain"
	}
}

// ---------------------------------------------------------------- generators

var c20Bursts = []int64{0, 1, 2, 3, 4, 7, 8, 9, 10, 199, 200, 201, -1, -2, -3, -200, -201,
	1<<31 - 1, 1 << 31, 1<<32 - 1, 1 << 32, 1<<32 + 1, -(1 << 31), -(1 << 32),
	math.MaxInt64, math.MaxInt64 - 1, math.MinInt64, math.MinInt64 + 1, 1 << 62, -(1 << 62)}

func c20Burst(r *Rng, size int64) int64 {
	switch r.Intn(10) {
	case 0, 1, 2:
		return c20Bursts[r.Intn(len(c20Bursts))]
	case 3:
		return int64(r.U64()) // anywhere in the int64 range
	case 4:
		return size + int64(r.Intn(3)) - 1
	default:
		return int64(r.Intn(10))
	}
}

func c20Size(r *Rng) int64 {
	switch r.Intn(20) {
	case 0:
		return []int64{-1, -2, -7, math.MinInt64}[r.Intn(4)]
	case 1:
		return []int64{9, 50, 1000, math.MaxInt64}[r.Intn(4)]
	default:
		return int64(r.Intn(9)) // 0..8
	}
}

// ids: a small alphabet (many repeats), or increasing with some re-pushes of recent / old ids
type c20IDGen struct {
	r        *Rng
	alphabet int
	next     uint64
}

func newC20IDGen(r *Rng) *c20IDGen {
	g := &c20IDGen{r: r, next: 1}
	if r.Chance(35) {
		g.alphabet = 2 + r.Intn(11)
	}
	return g
}

func (g *c20IDGen) id() uint64 {
	if g.alphabet > 0 {
		return uint64(1 + g.r.Intn(g.alphabet))
	}
	if g.next > 1 && g.r.Chance(15) {
		back := uint64(1 + g.r.Intn(6))
		if back >= g.next {
			back = g.next - 1
		}
		return g.next - back
	}
	g.next++
	return g.next - 1
}

func c20GenSeq(r *Rng) c20Input {
	in := c20Input{Kind: "seq", Buffered: !r.Chance(8), Size: c20Size(r)}
	ids := newC20IDGen(r)
	handles := 0
	add := func(op c20Op) {
		in.Ops = append(in.Ops, op)
		if op.T == "sub" || op.T == "att" {
			handles++
		}
	}
	handle := func() int {
		if handles == 0 || r.Chance(4) {
			return handles + r.Intn(3) // not (yet) a handle
		}
		return r.Intn(handles)
	}
	switch k := r.Intn(100); {
	case k < 50: // mixed
		n := 8 + r.Intn(60)
		for i := 0; i < n; i++ {
			switch w := r.Intn(100); {
			case w < 42:
				add(c20Op{T: "push", ID: ids.id()})
			case w < 68:
				add(c20Op{T: "cons", K: handle()})
			case w < 80:
				add(c20Op{T: "sub", Burst: c20Burst(r, in.Size)})
			case w < 90:
				add(c20Op{T: "att", Cap: r.Intn(7)})
			default:
				add(c20Op{T: "unsub", K: handle()})
			}
		}
	case k < 75: // consumers of every speed on small channels
		ns := 1 + r.Intn(4)
		speeds := make([]int, ns) // consumes per 6 pushes: 0, 2, 6, 12
		for i := 0; i < ns; i++ {
			add(c20Op{T: "att", Cap: r.Intn(7)})
			speeds[i] = []int{0, 2, 6, 12}[r.Intn(4)]
		}
		n := 15 + r.Intn(60)
		for i := 0; i < n; i++ {
			add(c20Op{T: "push", ID: ids.id()})
			for j := 0; j < ns; j++ {
				c := speeds[j] / 6
				if r.Intn(6) < speeds[j]%6 {
					c++
				}
				for ; c > 0; c-- {
					add(c20Op{T: "cons", K: j})
				}
			}
			if r.Chance(3) {
				add(c20Op{T: "unsub", K: r.Intn(ns)})
			}
			if r.Chance(3) {
				add(c20Op{T: "sub", Burst: c20Burst(r, in.Size)})
			}
		}
	case k < 88: // bursts at every boundary of the window
		n := r.Intn(14)
		for i := 0; i < n; i++ {
			add(c20Op{T: "push", ID: ids.id()})
		}
		m := 2 + r.Intn(6)
		for i := 0; i < m; i++ {
			add(c20Op{T: "sub", Burst: c20Burst(r, in.Size)})
			if r.Chance(40) {
				add(c20Op{T: "push", ID: ids.id()})
			}
		}
		for i := 0; i < handles; i++ {
			for c := r.Intn(12); c > 0; c-- {
				add(c20Op{T: "cons", K: i})
			}
		}
	default: // overflow of a real subscription (200 + burst), next to a reader that keeps up
		n := r.Intn(10)
		for i := 0; i < n; i++ {
			add(c20Op{T: "push", ID: ids.id()})
		}
		add(c20Op{T: "sub", Burst: c20Burst(r, in.Size)}) // handle 0: slow or stalled
		add(c20Op{T: "sub", Burst: c20Burst(r, in.Size)}) // handle 1: keeps up
		slow := r.Intn(3)                                  // consumes per 4 pushes
		total := 195 + r.Intn(30)
		ids.alphabet = 0
		for i := 0; i < total; i++ {
			add(c20Op{T: "push", ID: ids.id()})
			add(c20Op{T: "cons", K: 1})
			if r.Intn(4) < slow {
				add(c20Op{T: "cons", K: 0})
			}
		}
		for c := r.Intn(20); c > 0; c-- {
			add(c20Op{T: "cons", K: r.Intn(2)})
		}
		if r.Bool() {
			add(c20Op{T: "unsub", K: 0})
			add(c20Op{T: "push", ID: ids.id()})
		}
	}
	return in
}

func c20GenConc(r *Rng, tier string) c20Input {
	in := c20Input{Kind: "conc", Buffered: true, Size: int64(r.Intn(9)), Yield: []int{0, 1, 7, 50}[r.Intn(4)]}
	n := 250 + r.Intn(500)
	if tier == "thorough" {
		n = 250 + r.Intn(2500)
	}
	ids := newC20IDGen(r)
	if r.Chance(80) {
		ids.alphabet = 0
	}
	for i := 0; i < n; i++ {
		in.Pushes = append(in.Pushes, ids.id())
	}
	ns := 1 + r.Intn(6)
	for i := 0; i < ns; i++ {
		cs := c20ConcSub{Burst: c20Burst(r, in.Size), Speed: r.Intn(3), StartAfter: r.Intn(n + 20), UnsubAfter: -1}
		if r.Chance(50) {
			cs.StartAfter = r.Intn(n/4 + 1)
		}
		if r.Chance(25) {
			cs.UnsubAfter = r.Intn(n)
		}
		in.Subs = append(in.Subs, cs)
	}
	return in
}

func c20Gen(r *Rng, i int, tier string) any {
	if i%8 == 7 {
		return c20GenConc(r, tier)
	}
	return c20GenSeq(r)
}

func c20Corpus() []any {
	push := func(ids ...uint64) []c20Op {
		var ops []c20Op
		for _, id := range ids {
			ops = append(ops, c20Op{T: "push", ID: id})
		}
		return ops
	}
	cat := func(parts ...[]c20Op) []c20Op {
		var ops []c20Op
		for _, p := range parts {
			ops = append(ops, p...)
		}
		return ops
	}
	// the defects found at design time (fixed by repo_patches/C20_fix_*)
	negEmpty := c20Input{Kind: "seq", Buffered: true, Size: 3, Ops: []c20Op{{T: "sub", Burst: -1}}}
	negMin := c20Input{Kind: "seq", Buffered: true, Size: 3, Ops: cat(push(1), []c20Op{{T: "sub", Burst: math.MinInt64}, {T: "sub", Burst: -1}, {T: "sub", Burst: math.MaxInt64}})}
	size0 := c20Input{Kind: "seq", Buffered: true, Size: 0, Ops: cat(push(1, 2), []c20Op{{T: "sub", Burst: 1}})}
	sizeNeg := c20Input{Kind: "seq", Buffered: true, Size: -1, Ops: push(1, 2)}
	dup := c20Input{Kind: "seq", Buffered: true, Size: 3, Ops: cat(push(2, 3, 4, 4), []c20Op{{T: "sub", Burst: 3}}, push(2, 5))}
	// overflow of a capacity-2 subscription next to one that is read
	ov := c20Input{Kind: "seq", Buffered: true, Size: 2, Ops: cat(
		[]c20Op{{T: "att", Cap: 2}, {T: "att", Cap: 2}},
		push(1), []c20Op{{T: "cons", K: 1}}, push(2), []c20Op{{T: "cons", K: 1}}, push(3), []c20Op{{T: "cons", K: 1}}, push(4),
		[]c20Op{{T: "cons", K: 0}, {T: "cons", K: 0}, {T: "cons", K: 0}, {T: "cons", K: 1}, {T: "cons", K: 1}, {T: "unsub", K: 0}, {T: "unsub", K: 0}})}
	conc := c20Input{Kind: "conc", Buffered: true, Size: 3, Yield: 7, Subs: []c20ConcSub{
		{Burst: 2, Speed: 2, StartAfter: 0, UnsubAfter: -1}, {Burst: 5, Speed: 0, StartAfter: 10, UnsubAfter: -1},
		{Burst: -1, Speed: 1, StartAfter: 50, UnsubAfter: 40}, {Burst: 1, Speed: 2, StartAfter: 100, UnsubAfter: 0}}}
	for i := uint64(1); i <= 400; i++ {
		conc.Pushes = append(conc.Pushes, i)
	}
	return []any{negEmpty, negMin, size0, sizeNeg, dup, ov, conc}
}

func init() {
	props["C20"] = &Prop{Gen: c20Gen, Exec: c20Exec, Corpus: c20Corpus}
}
