module verifharness

go 1.21

require (
	github.com/streamingfast/bstream v0.0.0
	github.com/streamingfast/dbin v0.9.1-0.20231117225723-59790c798e2c
	github.com/streamingfast/dstore v0.1.1-0.20220607202639-35118aeaf648
	github.com/streamingfast/logging v0.0.0-20220304214715-bc750a74b424
	github.com/streamingfast/shutter v1.5.0
	go.uber.org/zap v1.21.0
	google.golang.org/grpc v1.49.0
	google.golang.org/protobuf v1.28.0
)

require (
	cloud.google.com/go v0.102.1 // indirect
	cloud.google.com/go/compute v1.7.0 // indirect
	cloud.google.com/go/iam v0.3.0 // indirect
	cloud.google.com/go/storage v1.22.1 // indirect
	github.com/Azure/azure-pipeline-go v0.2.3 // indirect
	github.com/Azure/azure-storage-blob-go v0.14.0 // indirect
	github.com/RoaringBitmap/roaring v0.9.4 // indirect
	github.com/aws/aws-sdk-go v1.37.0 // indirect
	github.com/beorn7/perks v1.0.1 // indirect
	github.com/blendle/zapdriver v1.3.1 // indirect
	github.com/cespare/xxhash/v2 v2.1.2 // indirect
	github.com/davecgh/go-spew v1.1.1 // indirect
	github.com/golang/groupcache v0.0.0-20200121045136-8c9f03a8e57e // indirect
	github.com/golang/protobuf v1.5.2 // indirect
	github.com/google/go-cmp v0.5.8 // indirect
	github.com/google/uuid v1.3.0 // indirect
	github.com/googleapis/enterprise-certificate-proxy v0.1.0 // indirect
	github.com/googleapis/gax-go/v2 v2.4.0 // indirect
	github.com/googleapis/go-type-adapters v1.0.0 // indirect
	github.com/jmespath/go-jmespath v0.4.0 // indirect
	github.com/klauspost/compress v1.10.2 // indirect
	github.com/logrusorgru/aurora v2.0.3+incompatible // indirect
	github.com/mattn/go-ieproxy v0.0.1 // indirect
	github.com/matttproud/golang_protobuf_extensions v1.0.1 // indirect
	github.com/mitchellh/go-testing-interface v1.14.1 // indirect
	github.com/pmezard/go-difflib v1.0.0 // indirect
	github.com/prometheus/client_golang v1.12.1 // indirect
	github.com/prometheus/client_model v0.2.0 // indirect
	github.com/prometheus/common v0.32.1 // indirect
	github.com/prometheus/procfs v0.7.3 // indirect
	github.com/streamingfast/dgrpc v0.0.0-20220909121013-162e9305bbfc // indirect
	github.com/streamingfast/dmetrics v0.0.0-20210811180524-8494aeb34447 // indirect
	github.com/streamingfast/opaque v0.0.0-20210811180740-0c01d37ea308 // indirect
	github.com/streamingfast/pbgo v0.0.6-0.20231120172814-537d034aad5e // indirect
	github.com/stretchr/testify v1.7.0 // indirect
	go.opencensus.io v0.23.0 // indirect
	go.uber.org/atomic v1.9.0 // indirect
	go.uber.org/multierr v1.6.0 // indirect
	golang.org/x/crypto v0.0.0-20220214200702-86341886e292 // indirect
	golang.org/x/net v0.0.0-20220624214902-1bab6f366d9e // indirect
	golang.org/x/oauth2 v0.0.0-20220622183110-fd043fe589d2 // indirect
	golang.org/x/sys v0.0.0-20220624220833-87e55d714810 // indirect
	golang.org/x/term v0.0.0-20210927222741-03fcf44c2211 // indirect
	golang.org/x/text v0.3.7 // indirect
	golang.org/x/xerrors v0.0.0-20220609144429-65e65417b02f // indirect
	google.golang.org/api v0.91.0 // indirect
	google.golang.org/genproto v0.0.0-20220808131553-a91ffa7f803e // indirect
	gopkg.in/yaml.v3 v3.0.0-20210107192922-496545a6307b // indirect
)

replace github.com/streamingfast/bstream => /repo
