package main

// C11: every fault ends a source cleanly.  One fault site per case: FileExists / OpenObject /
// header / each Read (storage error, bad length prefix, truncated message, undecodable block) /
// each preprocessor call / each handler call, and a failing one-block download during cursor
// resolution; for the file source, the joining source (real FileSourceFactory, live factory that
// never yields a source) and stream.New(...).Run with an absent hub.

import (
	"bytes"
	"context"
	"encoding/json"
	"errors"
	"fmt"
	"io"
	"sync/atomic"
	"time"

	"github.com/streamingfast/bstream"
	"github.com/streamingfast/bstream/hub"
	pbbstream "github.com/streamingfast/bstream/pb/sf/bstream/v1"
	"github.com/streamingfast/bstream/stream"
	"github.com/streamingfast/dstore"
	"go.uber.org/zap"
)

type c11Fault struct {
	Type string `json:"type"` // none | exists | open | header | read | pre | handler | download
	File int    `json:"file"`
	K    int    `json:"k"`
	// exists: number of consecutive failing FileExists calls (>= 5 = persistent, the source gives up)
	Count int `json:"count,omitempty"`
	// read: storage (the reader returns an error at the start of message K / instead of EOF) |
	// storage-mid (inside message K) | len0 | lenbig | trunc | garbage
	Damage       string `json:"damage,omitempty"`
	CloseDelayUs int    `json:"close_delay_us,omitempty"` // reader.Close() of the damaged file is slow
}

type c11Input struct {
	Kind    string   `json:"kind"` // file | joining | stream | cursor
	Layout  fsLayout `json:"layout"`
	Threads int      `json:"threads"`
	Delays  fsDelays `json:"delays"`
	Fault   c11Fault `json:"fault"`
}

// bundle bytes with message offsets: offs[k] = offset of the length prefix of message k,
// offs[len] = end of file
func fsBundleOffsets(blocks []fsBlk) ([]byte, []int) {
	if len(blocks) == 0 {
		b := fsBundleBytes(blocks)
		return b, []int{len(b)}
	}
	buf := &bytes.Buffer{}
	w, _ := bstream.NewDBinBlockWriter(buf)
	var offs []int
	for k, b := range blocks {
		if k > 0 {
			offs = append(offs, buf.Len())
		}
		w.Write(fsBlock(b))
		if k == 0 {
			// the header is written together with the first block
			offs = append(offs, headerLen(buf.Bytes()))
		}
	}
	offs = append(offs, buf.Len())
	return buf.Bytes(), offs
}

// dbin v1 header: "dbin" 0x01, 2 bytes content-type length, content type
func headerLen(b []byte) int {
	if len(b) < 7 {
		return len(b)
	}
	return 7 + int(b[5])<<8 + int(b[6])
}

// faultReader fails with errInjRead once `failAt` bytes have been delivered.
type faultReader struct {
	r        io.Reader
	n        int
	failAt   int
	closeDly time.Duration
}

func (z *faultReader) Read(p []byte) (int, error) {
	if z.failAt >= 0 {
		if z.n >= z.failAt {
			return 0, errInjRead
		}
		if z.n+len(p) > z.failAt {
			p = p[:z.failAt-z.n]
		}
	}
	n, err := z.r.Read(p)
	z.n += n
	return n, err
}
func (z *faultReader) Close() error { time.Sleep(z.closeDly); return nil }

// damage returns the bytes of the damaged bundle and, for storage faults, the byte position at
// which the reader starts failing (-1 none).
func c11Damage(content []byte, offs []int, f c11Fault) ([]byte, int) {
	k := f.K
	nmsg := len(offs) - 1
	out := append([]byte(nil), content...)
	switch f.Damage {
	case "storage":
		return out, offs[k]
	case "storage-mid":
		if k < nmsg {
			return out, offs[k] + 4 + (offs[k+1]-offs[k]-4)/3
		}
		return out, offs[k]
	case "len0":
		if k < nmsg {
			copy(out[offs[k]:], []byte{0, 0, 0, 0})
		}
		return out, -1
	case "lenbig":
		if k < nmsg {
			n := len(out) - offs[k] + 1000 // more than what is left; capped far below the 4 GiB the format allows
			if n > 1<<20 {
				n = 1 << 20
			}
			out[offs[k]] = byte(n >> 24)
			out[offs[k]+1] = byte(n >> 16)
			out[offs[k]+2] = byte(n >> 8)
			out[offs[k]+3] = byte(n)
		}
		return out, -1
	case "trunc":
		if k < nmsg {
			// cut inside the first fields of the message (a cut inside the trailing payload bytes
			// decodes as an altered block: defect C16#7, not this property's subject)
			return out[:offs[k]+4+3], -1
		}
		return out, -1
	case "trunc4":
		// seeded mutant C11-m7: cut exactly between the complete length prefix and the first byte of the body
		if k < nmsg {
			return out[:offs[k]+4], -1
		}
		return out, -1
	case "trunc2":
		// cut inside the length prefix
		if k < nmsg {
			return out[:offs[k]+2], -1
		}
		return out, -1
	case "garbage":
		if k < nmsg {
			for i := offs[k] + 4; i < offs[k+1]; i++ {
				out[i] = 0xff
			}
		}
		return out, -1
	}
	return out, -1
}

// c11ReaderSees runs the real block reader alone over the damaged bytes: the damage is a fault at
// Read number k iff it yields the first k stored blocks and then an error other than EOF.
func c11ReaderSees(damaged []byte, failAt int, blocks []fsBlk) int {
	var rd io.Reader = bytes.NewReader(damaged)
	if failAt >= 0 {
		rd = &faultReader{r: bytes.NewReader(damaged), failAt: failAt}
	}
	br, err := bstream.NewDBinBlockReader(rd)
	if err != nil {
		return -2
	}
	for i := 0; ; i++ {
		blk, err := br.Read()
		if err == io.EOF && blk == nil {
			return -1 // clean end: not a fault
		}
		if err != nil {
			return i
		}
		if i >= len(blocks) || fsIDNum(blk.Id) != blocks[i].ID || blk.Number != blocks[i].Num || fsIDNum(blk.ParentId) != blocks[i].Par {
			return -3 // an altered block came out
		}
	}
}

// number of files the launch reader queues: up to the first bundle after which the stop marker is sent
func c11FilesRead(l *fsLayout) int {
	for i := range l.Files {
		if l.Stop != 0 && l.base(i+1) > l.Stop {
			return i + 1
		}
	}
	return len(l.Files)
}

// all fault sites of a run over layout l
func c11Sites(l *fsLayout) []c11Fault {
	var out []c11Fault
	nread := c11FilesRead(l)
	stopped := nread < len(l.Files) || (l.Stop != 0 && l.base(len(l.Files)) > l.Stop)
	nexists := nread
	if !stopped {
		nexists = nread + 1 // the FileExists call for the bundle that does not exist
	}
	for i := 0; i < nexists; i++ {
		for _, c := range []int{1, 4, 5, 7} {
			out = append(out, c11Fault{Type: "exists", File: i, Count: c})
		}
	}
	ndeliv := 0
	for i := 0; i < nread; i++ {
		out = append(out, c11Fault{Type: "open", File: i}, c11Fault{Type: "header", File: i})
		for k := 0; k <= len(l.Files[i]); k++ {
			out = append(out, c11Fault{Type: "read", File: i, K: k, Damage: "storage"})
			if k < len(l.Files[i]) {
				for _, d := range []string{"storage-mid", "len0", "lenbig", "trunc", "garbage", "trunc4", "trunc2"} {
					out = append(out, c11Fault{Type: "read", File: i, K: k, Damage: d})
				}
				b := l.Files[i][k]
				if b.Num >= l.Start && b.Num >= l.base(i) {
					out = append(out, c11Fault{Type: "pre", File: i, K: k})
					ndeliv++
				}
			}
		}
	}
	for n := 0; n < ndeliv; n++ {
		out = append(out, c11Fault{Type: "handler", K: n})
	}
	return out
}

func c11Gen(r *Rng, i int, tier string) any {
	in := c11Input{Kind: "file"}
	switch k := r.Intn(100); {
	case k < 60:
	case k < 85:
		in.Kind = "joining"
	case k < 92:
		in.Kind = "stream"
	default:
		in.Kind = "cursor"
	}
	lr := r
	if tier == "thorough" {
		// one layout per 48 consecutive cases, every fault site of it in turn
		lr = NewRng(uint64(i/48)*7919 + 17)
		if in.Kind == "stream" || in.Kind == "cursor" {
			in.Kind = "file"
		}
	}
	opts := fsGenOpts{maxBundle: 12, maxFiles: 3, breakPct: 5, noStopPct: 10, cutPct: 10}
	if in.Kind == "stream" {
		opts = fsGenOpts{fixedBundle: 100, maxBundle: 100, maxFiles: 2, breakPct: 0, noStopPct: 10}
	}
	if in.Kind == "cursor" {
		// exactly one fault: the cursor cases inject a download fault, so the bundles themselves are whole and parent-linked
		// (a bundle cut on a message boundary is a second fault: seeds 2 and 3 of the quick tier drew such layouts and the
		// non-sequential-blocks error of the cut bundle, which comes first, was reported as a violation: a false alarm)
		opts.breakPct = 0
		opts.cutPct = 0
	}
	in.Layout = *fsGenLayout(lr, opts)
	if in.Kind == "stream" && in.Layout.Stop != 0 && in.Layout.Stop < in.Layout.Start {
		in.Layout.Stop = in.Layout.Start // stream.New rejects a stop block before the start block itself
	}
	in.Threads = r.Intn(6)
	in.Delays = fsDelays{Seed: r.U64(), Profile: []int{0, 1, 2, 3, 5}[r.Intn(5)]}
	if in.Kind == "cursor" {
		in.Fault = c11Fault{Type: "download", File: r.Intn(2), K: r.Intn(6)}
		return in
	}
	sites := c11Sites(&in.Layout)
	if r.Chance(4) || len(sites) == 0 {
		in.Fault = c11Fault{Type: "none"}
		return in
	}
	if tier == "thorough" {
		in.Fault = sites[(i%48)*len(sites)/48]
	} else {
		// sample, with equal weight per fault type
		typ := []string{"exists", "open", "header", "read", "read", "read", "pre", "handler"}[r.Intn(8)]
		var cand []c11Fault
		for _, s := range sites {
			if s.Type == typ {
				cand = append(cand, s)
			}
		}
		if len(cand) == 0 {
			cand = sites
		}
		in.Fault = cand[r.Intn(len(cand))]
		if typ == "handler" && in.Layout.Stop != 0 && r.Chance(35) {
			// the handler call that receives the stop block itself
			n := 0
			for i, fl := range in.Layout.Files[:c11FilesRead(&in.Layout)] {
				for _, b := range fl {
					if b.Num >= in.Layout.Start && b.Num >= in.Layout.base(i) {
						if b.Num == in.Layout.Stop {
							in.Fault = c11Fault{Type: "handler", K: n}
						}
						n++
					}
				}
			}
		}
	}
	if in.Fault.Type == "read" && r.Chance(40) {
		in.Fault.CloseDelayUs = []int{500, 3000, 20000}[r.Intn(3)]
	}
	return in
}

// live factory that never has a source (the hub is not ready)
type nilLiveFactory struct{}

func (nilLiveFactory) SourceFromBlockNum(uint64, bstream.Handler) bstream.Source        { return nil }
func (nilLiveFactory) SourceFromCursor(*bstream.Cursor, bstream.Handler) bstream.Source { return nil }
func (nilLiveFactory) SourceThroughCursor(uint64, *bstream.Cursor, bstream.Handler) bstream.Source {
	return nil
}

// streamSource adapts stream.Stream to the watchdog.
type streamSource struct {
	st     *stream.Stream
	ctx    context.Context
	cancel context.CancelFunc
	err    atomic.Value
	done   int32
}

type errBox struct{ err error }

func (s *streamSource) Run() {
	err := s.st.Run(s.ctx)
	s.err.Store(errBox{err})
	atomic.StoreInt32(&s.done, 1)
}
func (s *streamSource) Shutdown(error)               { s.cancel() }
func (s *streamSource) IsTerminating() bool          { return false }
func (s *streamSource) Terminating() <-chan struct{} { return nil }
func (s *streamSource) Terminated() <-chan struct{}  { return nil }
func (s *streamSource) IsTerminated() bool           { return atomic.LoadInt32(&s.done) != 0 }
func (s *streamSource) OnTerminating(func(error))    {}
func (s *streamSource) OnTerminated(func(error))     {}
func (s *streamSource) SetLogger(*zap.Logger)        {}
func (s *streamSource) Err() error {
	if b, ok := s.err.Load().(errBox); ok {
		if errors.Is(b.err, context.Canceled) {
			return nil // our own cancellation (the watchdog's Shutdown)
		}
		return b.err
	}
	return nil
}

func c11Exec(raw json.RawMessage) (*Case, error) {
	var in c11Input
	if err := json.Unmarshal(raw, &in); err != nil {
		return nil, err
	}
	l := &in.Layout
	if l.Bundle == 0 {
		return nil, fmt.Errorf("bundle size 0")
	}
	coqFault := "FNone"
	wantClass := 0
	dmgNote := ""
	kind := 0
	f := in.Fault
	attempt := func(quiet time.Duration) *fsObs {
		f = in.Fault
		kind = 0
		st, firsts := fsBuildStore(l, in.Delays)
		rec := &recorder{failAt: -1}

		switch f.Type {
		case "exists":
			name := ""
			if f.File <= len(l.Files) {
				name = fsFileName(l.base(f.File))
			}
			st.existFail = func(n string, call int) bool { return n == name && call < f.Count }
			if f.Count >= 5 {
				coqFault = fmt.Sprintf("(FExists %d)", f.File)
				wantClass = 4
			} else {
				dmgNote = "transient"
			}
		case "open":
			name := fsFileName(l.base(f.File))
			st.openFail = func(n string) bool { return n == name }
			coqFault = fmt.Sprintf("(FOpen %d)", f.File)
			wantClass = 5
		case "header":
			name := fsFileName(l.base(f.File))
			b := append([]byte(nil), st.content[name]...)
			switch f.K % 3 {
			case 0:
				copy(b, "xbin")
			case 1:
				if len(b) > 4 {
					b[4] = 9 // unsupported version
				}
			default:
				if len(b) > 3 {
					b = b[:3] // truncated header
				}
			}
			st.set(name, b)
			coqFault = fmt.Sprintf("(FHeader %d)", f.File)
			wantClass = 3
		case "read":
			name := fsFileName(l.base(f.File))
			content, offs := fsBundleOffsets(l.Files[f.File])
			damaged, failAt := c11Damage(content, offs, f)
			// a file that ends inside message K (inside its length prefix, right after it, or inside its first fields) is a
			// fault at Read K by the format itself: for these variants the real reader is NOT asked whether it is one (it was,
			// and a reader that takes a cut right after a length prefix for a clean end of file went unnoticed: C11-m7)
			byFormat := f.Damage == "trunc" || f.Damage == "trunc4" || f.Damage == "trunc2"
			if !byFormat && c11ReaderSees(damaged, failAt, l.Files[f.File]) != f.K {
				// this variant is not a fault at Read K for these bytes (e.g. it decodes as an altered
				// block, C16's subject): use the storage error, which always is
				f.Damage = "storage"
				damaged, failAt = c11Damage(content, offs, f)
			}
			st.set(name, damaged)
			cd := time.Duration(f.CloseDelayUs) * time.Microsecond
			st.wrapReader = func(n string, r io.Reader) io.ReadCloser {
				if n == name {
					return &faultReader{r: r, failAt: failAt, closeDly: cd}
				}
				return io.NopCloser(r)
			}
			coqFault = fmt.Sprintf("(FRead %d %d)", f.File, f.K)
			wantClass = 3
			dmgNote = f.Damage
		case "pre":
			coqFault = fmt.Sprintf("(FPre %d %d)", f.File, f.K)
			wantClass = 6
		case "handler":
			rec.failAt = f.K
			coqFault = fmt.Sprintf("(FHandler %d)", f.K)
			wantClass = 7
		}
		var preFailID uint64
		preFail := false
		if f.Type == "pre" {
			preFailID = l.Files[f.File][f.K].ID
			preFail = true
		}
		pre := bstream.PreprocessFunc(func(blk *pbbstream.Block) (interface{}, error) {
			id := fsIDNum(blk.Id)
			if dl := in.Delays.pre(id, blk.Number, firsts[id]); dl > 0 {
				time.Sleep(dl)
			}
			if preFail && id == preFailID {
				return nil, errInjPre
			}
			return fsTag(id, blk.Number), nil
		})
		opts := []bstream.FileSourceOption{bstream.FileSourceWithBundleSize(l.Bundle), bstream.FileSourceWithConcurrentPreprocess(pre, in.Threads)}
		if l.Stop != 0 {
			opts = append(opts, bstream.FileSourceWithStopBlock(l.Stop))
		}

		var src bstream.Source
		switch in.Kind {
		case "file":
			src = bstream.NewFileSource(st, l.Start, rec, zap.NewNop(), opts...)
		case "joining":
			kind = 1
			ff := bstream.NewFileSourceFactory(st, dstore.NewMockStore(nil), zap.NewNop(), opts...)
			src = bstream.NewJoiningSource(ff, nilLiveFactory{}, rec, l.Start, nil, false, zap.NewNop())
		case "stream":
			kind = 2
			sopts := []stream.Option{stream.WithPreprocessFunc(pre, in.Threads)}
			if l.Stop != 0 {
				sopts = append(sopts, stream.WithStopBlock(l.Stop))
			}
			var h *hub.ForkableHub // absent hub: never yields a live source
			s := stream.New(dstore.NewMockStore(nil), st, h, int64(l.Start), rec, sopts...)
			ctx, cancel := context.WithCancel(context.Background())
			src = &streamSource{st: s, ctx: ctx, cancel: cancel}
		case "cursor":
			kind = 3
			// the cursor sits on a forked block F (same height as the second eligible block, child of
			// the first one); resolving it needs F's one-block file, whose download fails
			var el []fsBlk
			for i, fl := range l.Files[:c11FilesRead(l)] {
				for _, b := range fl {
					if b.Num >= l.Start && b.Num >= l.base(i) {
						el = append(el, b)
					}
				}
			}
			if len(el) < 2 {
				kind = 0
				src = bstream.NewFileSource(st, l.Start, rec, zap.NewNop(), opts...)
				break
			}
			a, b := el[0], el[1]
			fork := fsBlk{ID: 900000 + b.ID, Num: b.Num, Par: a.ID}
			fb := fsBlock(fork)
			fb.LibNum = a.Num
			forked := dstore.NewMockStore(nil)
			forked.SetFile(bstream.BlockFileNameWithSuffix(fb, "verif"), fsBundleBytes([]fsBlk{fork}))
			wantClass = 5
			switch in.Fault.K % 3 {
			case 0: // the download of the one-block file fails
				forked.OpenObjectFunc = func(ctx context.Context, name string) (io.ReadCloser, error) {
					return nil, errInjOpen
				}
			case 1: // listing the forked-blocks store fails
				forked.WalkFunc = func(ctx context.Context, prefix string, f func(filename string) error) error {
					return errInjOpen
				}
			default: // the one-block file is damaged: bad dbin header, or cut exactly after its header (no block in it)
				damaged := []byte("xbin-damaged-one-block-file")
				if in.Fault.K%2 == 1 {
					whole := fsBundleBytes([]fsBlk{fork})
					damaged = append([]byte(nil), whole[:headerLen(whole)]...)
				}
				forked.SetFile(bstream.BlockFileNameWithSuffix(fb, "verif"), damaged)
				wantClass = 3
			}
			cur := &bstream.Cursor{Step: bstream.StepNew, Block: bstream.NewBlockRef(fsIDStr(fork.ID), fork.Num),
				HeadBlock: bstream.NewBlockRef(fsIDStr(fork.ID), fork.Num), LIB: bstream.NewBlockRef(fsIDStr(a.ID), a.Num)}
			if in.Fault.File%2 == 1 {
				// through the joining source: FileSourceFactory.SourceFromCursor
				ff := bstream.NewFileSourceFactory(st, forked, zap.NewNop(), opts...)
				src = bstream.NewJoiningSource(ff, nilLiveFactory{}, rec, l.Start, cur, false, zap.NewNop())
			} else {
				src = bstream.NewFileSourceFromCursor(st, forked, cur, rec, zap.NewNop(), opts...)
			}
			coqFault = "(FHandler 0)"
		}

		return runWatched(src, rec, quiet, fsHangWatch)
	}
	obs := runRetry(l, attempt)
	hung := !obs.Returned
	cs := &Case{Obs: obs}
	cs.Coq = fmt.Sprintf("C11Case %d %s %s %d %s %s %d %s %s", kind, coqLayout(l), coqFault, wantClass,
		coqBool(obs.Forced), coqCalls(obs.Calls), obs.Err, coqBool(hung), coqBool(obs.LateCalls > 0 || obs.ObjMismatch > 0))
	ft := f.Type
	if dmgNote != "" {
		ft += "-" + dmgNote
	}
	if f.Type == "download" {
		ft += []string{"-open", "-walk", "-damaged"}[f.K%3] + []string{"", "-joining"}[f.File%2]
	}
	if f.CloseDelayUs > 0 {
		ft += "-slowclose"
	}
	cs.Class = fmt.Sprintf("%s/%s/err%d", in.Kind, ft, obs.Err)
	if obs.Forced {
		cs.Class += "/tail"
	}
	if hung {
		cs.Class += "/hang"
	}
	cs.Nontrivial = f.Type != "none"
	cs.Key = string(raw)
	return cs, nil
}

func c11Corpus() []any {
	chain := func(from, to uint64) []fsBlk {
		var out []fsBlk
		for n := from; n <= to; n++ {
			out = append(out, fsBlk{ID: n * 2, Num: n, Par: (n - 1) * 2})
		}
		return out
	}
	two := fsLayout{Bundle: 5, Start: 1, Stop: 6, Files: [][]fsBlk{chain(1, 4), chain(5, 6)}}
	return []any{
		// the hang found at design time: OpenObject of the first bundle fails (fixed by
		// repo_patches/C11_fix_run_hang_on_reader_failure.diff); also through joining and stream
		c11Input{Kind: "file", Layout: two, Threads: 2, Fault: c11Fault{Type: "open", File: 0}},
		c11Input{Kind: "file", Layout: two, Threads: 2, Fault: c11Fault{Type: "header", File: 0}},
		c11Input{Kind: "joining", Layout: two, Threads: 2, Fault: c11Fault{Type: "open", File: 0}},
		c11Input{Kind: "file", Layout: two, Threads: 0, Fault: c11Fault{Type: "header", File: 1, K: 2}},
		// the misreported read error: third Read of the first bundle fails, the reader is slow to
		// close (fixed by repo_patches/C11_fix_read_error_misreported.diff)
		c11Input{Kind: "file", Layout: two, Threads: 2, Fault: c11Fault{Type: "read", File: 0, K: 2, Damage: "storage", CloseDelayUs: 50000}},
		c11Input{Kind: "joining", Layout: two, Threads: 2, Fault: c11Fault{Type: "read", File: 0, K: 2, Damage: "garbage", CloseDelayUs: 50000}},
		c11Input{Kind: "file", Layout: two, Threads: 3, Fault: c11Fault{Type: "read", File: 0, K: 4, Damage: "storage", CloseDelayUs: 20000}},
		c11Input{Kind: "file", Layout: two, Threads: 1, Fault: c11Fault{Type: "exists", File: 1, Count: 5}},
		c11Input{Kind: "file", Layout: two, Threads: 1, Fault: c11Fault{Type: "exists", File: 1, Count: 4}},
		c11Input{Kind: "file", Layout: two, Threads: 4, Fault: c11Fault{Type: "pre", File: 1, K: 0}},
		c11Input{Kind: "file", Layout: two, Threads: 4, Fault: c11Fault{Type: "handler", K: 3}},
		c11Input{Kind: "cursor", Layout: two, Threads: 2, Fault: c11Fault{Type: "download"}},
		c11Input{Kind: "cursor", Layout: two, Threads: 2, Fault: c11Fault{Type: "download", File: 1, K: 1}},
		c11Input{Kind: "cursor", Layout: two, Threads: 0, Fault: c11Fault{Type: "download", File: 1, K: 2}},
		// the one-block file of the forked cursor block is cut exactly after its dbin header (fixed: it used to decode as
		// "no block, no error": the handler was called with a nil block, JoiningSource panicked)
		c11Input{Kind: "cursor", Layout: two, Threads: 0, Fault: c11Fault{Type: "download", File: 0, K: 5}},
		c11Input{Kind: "cursor", Layout: two, Threads: 2, Fault: c11Fault{Type: "download", File: 1, K: 5}},
		c11Input{Kind: "stream", Layout: fsLayout{Bundle: 100, Start: 3, Stop: 104, Files: [][]fsBlk{chain(1, 99), chain(100, 140)}}, Threads: 2, Fault: c11Fault{Type: "open", File: 1}},
		// the handler fails on the stop block itself: the handler's error is the cause, not "stop block reached"
		c11Input{Kind: "stream", Layout: fsLayout{Bundle: 100, Start: 3, Stop: 7, Files: [][]fsBlk{chain(1, 99)}}, Threads: 2, Fault: c11Fault{Type: "handler", K: 4}},
		c11Input{Kind: "file", Layout: two, Threads: 2, Fault: c11Fault{Type: "handler", K: 5}},
		c11Input{Kind: "joining", Layout: two, Threads: 0, Fault: c11Fault{Type: "handler", K: 5}},
		// a bundle cut exactly between two messages reads as a clean shorter file: the next bundle does not link
		c11Input{Kind: "file", Layout: fsLayout{Bundle: 5, Start: 1, Stop: 6, Files: [][]fsBlk{chain(1, 4)[:2], chain(1, 6)[4:]}}, Threads: 2},
		c11Input{Kind: "file", Layout: fsLayout{Bundle: 5, Start: 1, Stop: 6, Files: [][]fsBlk{nil, chain(1, 6)[4:]}}, Threads: 0},
	}
}

func init() {
	props["C11"] = &Prop{Gen: c11Gen, Exec: c11Exec, Corpus: c11Corpus}
}
