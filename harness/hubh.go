package main

// C09: the real ForkableHub bootstrapped from one-block passes and live blocks; readiness,
// LowestBlockNum, HeadInfo and SourceFromBlockNum / WithForks answers after every live block, plus
// a tracking subscription created at the first ready instant (a consumer that never disconnects).

import (
	"encoding/json"
	"fmt"
	"sort"
	"sync"
	"time"

	"github.com/streamingfast/bstream"
	"github.com/streamingfast/bstream/hub"
	pbbstream "github.com/streamingfast/bstream/pb/sf/bstream/v1"
	"github.com/streamingfast/shutter"
)

type hubLive struct {
	Blk  fkBlock   `json:"blk"`
	Pass []fkBlock `json:"pass"` // nil = the one-block factory answers "not yet" (nil source)
	Nil  bool      `json:"nil"`
}
type hubInput struct {
	First uint64    `json:"first"`
	Kept  int       `json:"kept"`
	Live  []hubLive `json:"live"`
	Sel   []int     `json:"sel"` // request selectors
	Shape string    `json:"shape"`
}
type hubStepObs struct {
	Result  string     `json:"result"`
	Ready   bool       `json:"ready"`
	Lowest  uint64     `json:"lowest"`
	HeadOK  bool       `json:"head_ok"`
	Head    fkRef      `json:"head"`
	HeadLib uint64     `json:"head_lib"`
	Tracker []fkEvent  `json:"tracker"`
	Answers []brAnswer `json:"answers"`
}
type hubObs struct {
	Steps []hubStepObs `json:"steps"`
}

// canonForks makes the order of a with-forks snapshot comparable with the model WITHOUT hiding the order the
// implementation delivered: blocks of EQUAL height come out of a Go map in random order, so each run of equal heights
// is sorted by id; the order of the heights themselves is left exactly as delivered (the property demands
// "non-decreasing height": a snapshot that is not non-decreasing must reach the checker as it is).  W1 audit: the
// harness used to sort the whole list by (height, id), which made that clause unobservable.
func canonForks(l []fkBlock) {
	for i := 0; i < len(l); {
		j := i + 1
		for j < len(l) && l[j].Num == l[i].Num {
			j++
		}
		run := l[i:j]
		sort.SliceStable(run, func(a, b int) bool { return run[a].ID < run[b].ID })
		i = j
	}
}

type passSource struct {
	*shutter.Shutter
	blocks []fkBlock
	h      bstream.Handler
	pb     func(fkBlock) *pbbstream.Block // nil = fkPB (no payload)
}

func (s *passSource) Run() {
	for _, b := range s.blocks {
		if s.IsTerminating() {
			return
		}
		pb := s.pb
		if pb == nil {
			pb = fkPB
		}
		if err := s.h.ProcessBlock(pb(b), nil); err != nil {
			s.Shutdown(err)
			return
		}
	}
	s.Shutdown(nil)
}

type idleSource struct{ *shutter.Shutter }

func (s *idleSource) Run() { <-s.Terminating() }

var hubNop = bstream.HandlerFunc(func(blk *pbbstream.Block, obj interface{}) error { return nil })

func hubRun(in *hubInput) (*hubObs, string) {
	saved := bstream.GetProtocolFirstStreamableBlock
	bstream.GetProtocolFirstStreamableBlock = in.First
	defer func() { bstream.GetProtocolFirstStreamableBlock = saved }()

	obs := &hubObs{}
	handlerCh := make(chan bstream.Handler, 1)
	var livesMu sync.Mutex // lives is appended to by the hub's Run goroutine
	var lives []*idleSource
	var cur *hubLive
	lsf := func(h bstream.Handler) bstream.Source {
		select {
		case handlerCh <- h:
		default:
		}
		l := &idleSource{shutter.New()}
		livesMu.Lock()
		lives = append(lives, l)
		livesMu.Unlock()
		return l
	}
	obsf := bstream.SourceFromNumFactory(func(start uint64, h bstream.Handler) bstream.Source {
		if cur == nil || cur.Nil {
			return nil
		}
		var bl []fkBlock
		for _, b := range cur.Pass {
			if b.Num >= start {
				bl = append(bl, b)
			}
		}
		return &passSource{Shutter: shutter.New(), blocks: bl, h: h}
	})
	fh := hub.NewForkableHub(lsf, obsf, in.Kept)
	go fh.Run()
	var handler bstream.Handler
	select {
	case handler = <-handlerCh:
	case <-time.After(5 * time.Second):
		return obs, "hang"
	}
	defer func() {
		fh.Shutdown(nil)
		livesMu.Lock()
		ls := append([]*idleSource(nil), lives...)
		livesMu.Unlock()
		for i := 0; i < len(ls) && i < 4; i++ {
			ls[i].Shutdown(nil)
		}
	}()

	universe := map[uint64]bool{}
	var uni []uint64
	add := func(b fkBlock) {
		if !universe[b.ID] && b.ID != 0 {
			universe[b.ID] = true
			uni = append(uni, b.ID)
		}
	}
	for _, l := range in.Live {
		add(l.Blk)
		for _, b := range l.Pass {
			add(b)
		}
	}
	sort.Slice(uni, func(i, j int) bool { return uni[i] < uni[j] })

	var tracker *hub.Subscription
	selIdx := 0
	nextSel := func() int {
		if len(in.Sel) == 0 {
			return 0
		}
		v := in.Sel[selIdx%len(in.Sel)]
		selIdx++
		return v
	}
	for i := range in.Live {
		cur = &in.Live[i]
		st := hubStepObs{Result: "ok"}
		done := make(chan struct{})
		go func() {
			defer close(done)
			defer func() {
				if r := recover(); r != nil {
					st.Result = "panic"
				}
			}()
			if err := handler.ProcessBlock(fkPB(cur.Blk), nil); err != nil {
				st.Result = "selfparent"
			}
		}()
		select {
		case <-done:
		case <-time.After(5 * time.Second):
			st.Result = "hang"
			obs.Steps = append(obs.Steps, st)
			return obs, "hang"
		}
		st.Ready = fh.IsReady()
		func() {
			defer func() {
				if r := recover(); r != nil {
					st.Result = "panic"
				}
			}()
			st.Lowest = fh.LowestBlockNum()
			if num, id, _, lib, err := fh.HeadInfo(); err == nil {
				st.HeadOK = true
				st.Head = fkRef{fkIDNum(id), num}
				st.HeadLib = lib
			}
		}()
		st.Tracker = []fkEvent{}
		if tracker == nil && st.Ready {
			if src := fh.SourceFromBlockNum(st.Lowest, hubNop); src != nil {
				tracker = src.(*hub.Subscription)
			}
		}
		if tracker != nil {
			st.Tracker = brEventsOf(tracker.VerifDrain())
		}
		// requests
		var stored []uint64
		for _, id := range uni {
			if fh.GetBlockByHash(fkIDStr(id)) != nil {
				stored = append(stored, id)
			}
		}
		ask := func(kind string, n uint64) {
			ans := brAnswer{Kind: kind, M: i + 1, K: -1, Start: n, Lowest: st.Lowest, Stored: stored, Events: []fkEvent{}}
			func() {
				defer func() {
					if r := recover(); r != nil {
						ans.Panic = true
					}
				}()
				var src bstream.Source
				if kind == "num" {
					src = fh.SourceFromBlockNum(n, hubNop)
				} else {
					src = fh.SourceFromBlockNumWithForks(n, hubNop)
				}
				if src != nil {
					ans.Served = true
					sub := src.(*hub.Subscription)
					blocks := sub.VerifDrain()
					if kind == "num" {
						ans.Events = brEventsOf(blocks)
					} else {
						for _, pb := range blocks {
							ans.Forks = append(ans.Forks, fkFromPB(pb.Block))
						}
						canonForks(ans.Forks)
					}
					sub.Shutdown(nil)
				}
			}()
			st.Answers = append(st.Answers, ans)
		}
		low := st.Lowest
		head := st.Head.Num
		if low > 0 {
			ask("num", low-1)
		}
		ask("num", low)
		ask("num", head)
		ask("num", head+1)
		span := int(head-low) + 4
		if span < 4 {
			span = 4
		}
		base := low
		if base >= 2 {
			base -= 2
		}
		ask("num", base+uint64(nextSel()%span))
		ask("forks", base+uint64(nextSel()%span))
		obs.Steps = append(obs.Steps, st)
		if st.Result != "ok" {
			break
		}
	}
	return obs, ""
}

func coqHubCase(in *hubInput, obs *hubObs) string {
	lv := make([]string, len(in.Live))
	for i, l := range in.Live {
		p := "PNil"
		if !l.Nil {
			bl := make([]string, len(l.Pass))
			for j, b := range l.Pass {
				bl[j] = coqFkBlock(b)
			}
			p = "(PBlocks " + coqList(bl) + ")"
		}
		lv[i] = "(" + coqFkBlock(l.Blk) + ", " + p + ")"
	}
	st := make([]string, len(obs.Steps))
	for i, s := range obs.Steps {
		tr := make([]string, len(s.Tracker))
		for j, e := range s.Tracker {
			tr[j] = coqFkEvent(e)
		}
		an := make([]string, len(s.Answers))
		for j, a := range s.Answers {
			an[j] = coqBrAnswer(a)
		}
		head := "None"
		if s.HeadOK {
			head = fmt.Sprintf("(Some (%s, %d))", coqFkRef(s.Head), s.HeadLib)
		}
		res := s.Result
		if res == "hang" {
			res = "panic"
		}
		st[i] = fmt.Sprintf("(mkHObs %s %s %d %s %s %s)", coqResult(res), coqBool(s.Ready), s.Lowest, head, coqList(tr), coqList(an))
	}
	return fmt.Sprintf("mkHubCase %d %d %s %s", in.First, in.Kept, coqList(lv), coqList(st))
}

// hubGen splits a generated history between one-block passes and live blocks.
func hubGen(r *Rng, i int, tier string) any {
	in := &hubInput{}
	in.First = uint64([]int{0, 0, 1, 1, 2}[r.Intn(5)])
	in.Kept = []int{0, 0, 1, 2, 3, 5, 8, 120}[r.Intn(8)]
	n := 5 + r.Intn(20)
	t := fkGenTree(r, n, "disc", in.First, false)
	if r.Chance(25) {
		// heights around a multiple of 100 so that the rounded start block matters
		off := uint64(95 + r.Intn(210))
		for k := range t.blocks {
			t.blocks[k].Num += off
			t.blocks[k].Lib += off
		}
	}
	hist, shape := fkOrder(r, t, "disc")
	in.Shape = "hub/" + shape
	// the first `cut` blocks are already in one-block files when the hub starts; the rest arrive live,
	// while the one-block store keeps growing (each pass offers every block that arrived so far)
	cut := r.Intn(len(hist))
	if r.Chance(20) {
		cut = 0
	}
	lagged := r.Chance(30) // one-block files lag behind live by a few blocks: holes between files and live
	for j := cut; j < len(hist); j++ {
		l := hubLive{Blk: hist[j]}
		upto := j
		if lagged {
			upto = j - r.Intn(4)
			if upto < 0 {
				upto = 0
			}
		}
		if r.Chance(12) {
			l.Nil = true
		} else {
			l.Pass = append([]fkBlock{}, hist[:upto]...)
			sort.SliceStable(l.Pass, func(a, b int) bool { return l.Pass[a].Num < l.Pass[b].Num })
		}
		in.Live = append(in.Live, l)
	}
	if lagged {
		in.Shape += "/lagged"
	}
	for k := 0; k < 8; k++ {
		in.Sel = append(in.Sel, r.Intn(1<<16))
	}
	return in
}

func hubExec(raw json.RawMessage) (*Case, error) {
	var in hubInput
	if err := json.Unmarshal(raw, &in); err != nil {
		return nil, err
	}
	obs, fatal := hubRun(&in)
	cs := &Case{Obs: obs, Coq: coqHubCase(&in, obs)}
	ready := false
	served := 0
	for _, s := range obs.Steps {
		if s.Ready {
			ready = true
		}
		for _, a := range s.Answers {
			if a.Served {
				served++
			}
		}
	}
	cs.Class = in.Shape
	if ready {
		cs.Class += "/ready"
	} else {
		cs.Class += "/never-ready"
	}
	if fatal != "" {
		cs.Class += "/" + fatal
	}
	cs.Nontrivial = served > 0
	cs.Key = string(raw)
	cs.Tags = []string{fmt.Sprintf("live=%d served=%d", len(in.Live), served)}
	return cs, nil
}

func init() {
	props["C09"] = &Prop{Gen: hubGen, Exec: hubExec}
}
