package main

import (
	"bufio"
	"encoding/json"
	"fmt"
	"os"
	"sort"
	"strings"
)

// Rng is splitmix64: every random choice of a run derives from one seed.
type Rng struct{ s uint64 }

func NewRng(seed uint64) *Rng {
	// the seed is hashed: the generator's state advances by a constant, so consecutive seeds must not
	// map to consecutive states (they would produce the same stream shifted by one draw)
	z := seed + 0x1234567
	z = (z ^ (z >> 30)) * 0xBF58476D1CE4E5B9
	z = (z ^ (z >> 27)) * 0x94D049BB133111EB
	z = z ^ (z >> 31)
	return &Rng{s: z*0xD6E8FEB86659FD93 + 0x9E3779B97F4A7C15}
}
func (r *Rng) U64() uint64 {
	r.s += 0x9E3779B97F4A7C15
	z := r.s
	z = (z ^ (z >> 30)) * 0xBF58476D1CE4E5B9
	z = (z ^ (z >> 27)) * 0x94D049BB133111EB
	return z ^ (z >> 31)
}
func (r *Rng) Intn(n int) int {
	if n <= 0 {
		return 0
	}
	return int(r.U64() % uint64(n))
}
func (r *Rng) Bool() bool       { return r.U64()&1 == 1 }
func (r *Rng) Chance(p int) bool { return r.Intn(100) < p }
func (r *Rng) Pick(xs []uint64) uint64 { return xs[r.Intn(len(xs))] }
func (r *Rng) Fork() *Rng       { return &Rng{s: r.U64()} }

// Case is one executed input with the implementation's projected observation.
type Case struct {
	I          int             `json:"i"`
	Class      string          `json:"class"`
	Nontrivial bool            `json:"nontrivial"`
	Key        string          `json:"key"` // distinctness key
	Input      json.RawMessage `json:"input"`
	Obs        any             `json:"obs"`
	Coq        string          `json:"coq"`
	Tags       []string        `json:"tags,omitempty"`
}

// Prop is the per-property harness: Gen draws an input, Exec runs the real code on it.
type Prop struct {
	Gen  func(r *Rng, i int, tier string) any
	Exec func(input json.RawMessage) (*Case, error)
	// Corpus inputs always run first (regression cases, minimised failures).
	Corpus func() []any
}

var props = map[string]*Prop{}

func mustJSON(v any) json.RawMessage {
	b, err := json.Marshal(v)
	if err != nil {
		panic(err)
	}
	return b
}

// ---- Coq term helpers ----

func coqBytes(s string) string {
	if len(s) == 0 {
		return "[]"
	}
	var sb strings.Builder
	sb.WriteByte('[')
	for i := 0; i < len(s); i++ {
		if i > 0 {
			sb.WriteByte(';')
		}
		fmt.Fprintf(&sb, "%d", s[i])
	}
	sb.WriteByte(']')
	return sb.String()
}

func coqBool(b bool) string {
	if b {
		return "true"
	}
	return "false"
}

func coqList(items []string) string {
	if len(items) == 0 {
		return "[]"
	}
	return "[" + strings.Join(items, "; ") + "]"
}

func coqOpt(present bool, term string) string {
	if !present {
		return "None"
	}
	return "(Some " + term + ")"
}

func coqZ(z int64) string {
	if z < 0 {
		return fmt.Sprintf("(%d)%%Z", z)
	}
	return fmt.Sprintf("%d%%Z", z)
}

func sortedKeys[V any](m map[string]V) []string {
	ks := make([]string, 0, len(m))
	for k := range m {
		ks = append(ks, k)
	}
	sort.Strings(ks)
	return ks
}

type caseWriter struct {
	f *os.File
	w *bufio.Writer
	n int
}

func newCaseWriter(path string) (*caseWriter, error) {
	f, err := os.Create(path)
	if err != nil {
		return nil, err
	}
	return &caseWriter{f: f, w: bufio.NewWriterSize(f, 1<<20)}, nil
}

func (c *caseWriter) write(cs *Case) error {
	cs.I = c.n
	c.n++
	b, err := json.Marshal(cs)
	if err != nil {
		return err
	}
	c.w.Write(b)
	return c.w.WriteByte('\n')
}

func (c *caseWriter) close() error {
	if err := c.w.Flush(); err != nil {
		return err
	}
	return c.f.Close()
}
