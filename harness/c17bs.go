package main

// Y1 (W3 'left open'): the wiring of blockstream.WithNumGator / blockstream.WithTimeThresholdGator.
//
// harness/c17.go builds the gators with bstream.NewBlockNumberGator / NewExclusiveBlockNumberGator /
// NewTimeThresholdGator itself, so what package blockstream does with its two options (which constructor it calls
// with which arguments, and whether Source.readStream consults the gator for every received block) was exercised by
// no check.  The cases of kind "bsnumgator" / "bstimegator" go through the PUBLIC API only, no hook:
// blockstream.NewSource(ctx, addr, 0, handler, blockstream.WithNumGator(target, exclusive)) resp.
// WithTimeThresholdGator(threshold), then Source.Run(), against a gRPC BlockStream server that this process serves on
// a loopback port and that sends the blocks of the case in order.  The observation has the shape of the gator
// cases of c17.go (per sent block: did it reach the handler, unchanged) and is judged by the same model / checker
// (KNumGator / KTimeGator).
//
// End of a case: Source.readStream drops whatever is still in its pipeline once the stream ends, so the server does
// not end the stream; it sends a sentinel block twice (number 2^64-1, block time forty years ahead: it opens every
// gator; the exclusive number gator swallows the block that opens it, hence twice), and the case ends when the handler
// has seen it (all earlier blocks the gator passed have been handled by then: one pipeline, in order).  A sentinel that does not arrive within the watchdog is reported as a
// crash/hang of the case (panic flag, verdict code 4).

import (
	"context"
	"fmt"
	"math"
	"net"
	"sync"
	"time"

	"github.com/streamingfast/bstream"
	"github.com/streamingfast/bstream/blockstream"
	pbbstream "github.com/streamingfast/bstream/pb/sf/bstream/v1"
	"google.golang.org/grpc"
	"google.golang.org/protobuf/proto"
	"google.golang.org/protobuf/types/known/anypb"
	"google.golang.org/protobuf/types/known/timestamppb"
)

const c17bsSentinelID = "c17bs-sentinel"
const c17bsWatchdog = 10 * time.Second

func c17IsBlockstream(kind string) bool { return kind == "bsnumgator" || kind == "bstimegator" }

type c17bsJob struct {
	blks  []*pbbstream.Block
	stamp func(i int) // called right before block i is sent (wall-clock kinds stamp the block time here)
	done  chan struct{}
}

type c17bsServer struct {
	pbbstream.UnimplementedBlockStreamServer
	mu  sync.Mutex
	job *c17bsJob
}

func (s *c17bsServer) Blocks(_ *pbbstream.BlockRequest, stream pbbstream.BlockStream_BlocksServer) error {
	s.mu.Lock()
	job := s.job
	s.mu.Unlock()
	if job == nil {
		return fmt.Errorf("no case is running")
	}
	for i, b := range job.blks {
		if job.stamp != nil {
			job.stamp(i)
		}
		if err := stream.Send(b); err != nil {
			return err
		}
	}
	sentinel := &pbbstream.Block{Id: c17bsSentinelID, Number: math.MaxUint64,
		Timestamp: timestamppb.New(time.Now().Add(40 * 365 * 24 * time.Hour)),
		Payload:   &anypb.Any{TypeUrl: "type.googleapis.com/sf.bstream.v1.verif.c17", Value: []byte("sentinel")}}
	// twice: an exclusive number gator swallows the block that opens it
	for k := 0; k < 2; k++ {
		if err := stream.Send(sentinel); err != nil {
			return err
		}
	}
	select {
	case <-job.done:
	case <-stream.Context().Done():
	}
	return nil
}

var (
	c17bsOnce sync.Once
	c17bsSrv  *c17bsServer
	c17bsAddr string
	c17bsErr  error
)

func c17bsStart() {
	c17bsOnce.Do(func() {
		lis, err := net.Listen("tcp", "127.0.0.1:0")
		if err != nil {
			c17bsErr = err
			return
		}
		c17bsSrv = &c17bsServer{}
		gs := grpc.NewServer()
		pbbstream.RegisterBlockStreamServer(gs, c17bsSrv)
		c17bsAddr = lis.Addr().String()
		go gs.Serve(lis)
	})
}

// c17RunBlockstream returns, per sent block, 0 = did not reach the handler, 1 = reached it once, in order and equal
// (proto.Equal) to what was sent, 2 = anything else; anomaly != "" when the case did not end on the sentinel.
func c17RunBlockstream(in *c17Input, blks []*pbbstream.Block, stamp func(i int)) (f []int, why []string, anomaly string) {
	c17bsStart()
	if c17bsErr != nil {
		return nil, nil, "cannot listen on a loopback port: " + c17bsErr.Error()
	}
	f = make([]int, len(blks))
	job := &c17bsJob{blks: blks, stamp: stamp, done: make(chan struct{})}
	c17bsSrv.mu.Lock()
	c17bsSrv.job = job
	c17bsSrv.mu.Unlock()

	var mu sync.Mutex
	next := 0 // deliveries are a subsequence of what was sent
	sentinelSeen := make(chan struct{})
	var once sync.Once
	handler := bstream.HandlerFunc(func(blk *pbbstream.Block, obj interface{}) error {
		mu.Lock()
		defer mu.Unlock()
		if blk.Id == c17bsSentinelID && blk.Number == math.MaxUint64 {
			once.Do(func() { close(sentinelSeen) })
			return nil
		}
		for j := next; j < len(blks); j++ {
			if proto.Equal(blk, blks[j]) {
				f[j] = 1
				next = j + 1
				if obj != nil {
					f[j] = 2
					why = append(why, fmt.Sprintf("block %d: handed on with an object although no preprocessor is configured", j))
				}
				return nil
			}
		}
		// not one of the blocks still to come: a repeated, reordered or altered block
		k := next
		if k >= len(blks) {
			k = len(blks) - 1
		}
		if k >= 0 {
			f[k] = 2
		}
		why = append(why, "delivered block is none of the blocks still to come: "+blk.String())
		return nil
	})

	var opt blockstream.SourceOption
	if in.Kind == "bsnumgator" {
		opt = blockstream.WithNumGator(in.TNum, in.GateType != 0)
	} else {
		opt = blockstream.WithTimeThresholdGator(time.Duration(in.ThrMs) * time.Millisecond)
	}
	ctx, cancel := context.WithCancel(context.Background())
	defer cancel()
	src := blockstream.NewSource(ctx, c17bsAddr, 0, handler, opt)
	go src.Run()
	select {
	case <-sentinelSeen:
	case <-src.Terminated():
		anomaly = fmt.Sprintf("the source ended before the sentinel block was handled: %v", src.Err())
	case <-time.After(c17bsWatchdog):
		anomaly = "the sentinel block (number 2^64-1, block time 40 years ahead) did not reach the handler"
	}
	src.Shutdown(nil)
	close(job.done)
	select {
	case <-src.Terminated():
	case <-time.After(c17bsWatchdog):
		if anomaly == "" {
			anomaly = "the source did not terminate after Shutdown"
		}
	}
	mu.Lock()
	defer mu.Unlock()
	return append([]int(nil), f...), append([]string(nil), why...), anomaly
}
