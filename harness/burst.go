package main

// C05 / C09 (Forkable level): a history through a hub-configured Forkable (hold-until-LIB,
// kept final blocks), every delivered cursor recorded; at chosen later instants the real burst
// computations (CallWithBlocksFromCursor / ThroughCursor / FromNum / FromNum with forks) are
// called and their answers recorded.

import (
	"encoding/json"
	"fmt"
	"sort"

	"github.com/streamingfast/bstream"
	"github.com/streamingfast/bstream/forkable"
	"google.golang.org/protobuf/proto"
)

type brReq struct {
	Kind  string `json:"kind"` // cursor | through | num | forks
	M     int    `json:"m"`    // after how many blocks of the history
	KSel  int    `json:"ksel"` // selects the event whose cursor is used (resolved modulo the candidates)
	Final bool   `json:"final"` // use a final (irreversible) cursor
	Undo  bool   `json:"undo"`  // prefer the cursor of an Undo event
	SSel  int    `json:"ssel"` // selects the start block among the candidates
	Num   uint64 `json:"num"`  // num / forks requests (offset from lowest known height)
}
type brInput struct {
	Prop    string    `json:"prop"`
	First   uint64    `json:"first"`
	Kept    int       `json:"kept"`
	History []fkBlock `json:"history"`
	Shape   string    `json:"shape"`
	Reqs    []brReq   `json:"reqs"`
}
type brCursor struct {
	Step int   `json:"step"`
	Blk  fkRef `json:"blk"`
	Head fkRef `json:"head"`
	Lib  fkRef `json:"lib"`
}
type brAnswer struct {
	Kind    string    `json:"kind"`
	M       int       `json:"m"`
	K       int       `json:"k"` // global index of the event whose cursor was used (-1 for num kinds)
	Cursor  brCursor  `json:"cursor"`
	Start   uint64    `json:"start"`
	Served  bool      `json:"served"`
	Events  []fkEvent `json:"events"`
	Forks   []fkBlock `json:"forks"`
	LibOn   bool      `json:"lib_on_chain"`
	BlkRet  bool      `json:"blk_retained"`
	Lowest  uint64    `json:"lowest"`
	Stored  []uint64  `json:"stored"`
	Panic   bool      `json:"panic"`
	// W3: first burst item whose block is not the block the hub received under that id (whole message: payload, time), whose
	// wrapped object is not the object fed with that block, or whose object / cursor disagree; such an item is projected as a
	// block with a foreign id (a block with the right id and other content is not that block)
	ObjErr string `json:"obj_err,omitempty"`
	// W3: the error returned next to the callback: "no source" is `callback not called`, and then an error must be returned;
	// a served request returns nil
	ErrIncons string `json:"err_incons,omitempty"`
}

// W3: the object fed to the Forkable together with block b (what a preprocessor in front of the hub would attach)
func brToken(id uint64) string { return fmt.Sprintf("obj:%d", id) }

const brForeign = uint64(1) << 62

// W3: projection of the observables brEventsOf does not record
func brObjCheck(fed map[uint64]fkBlock, blocks []*bstream.PreprocessedBlock, evs []fkEvent) string {
	first := ""
	for i, pb := range blocks {
		why := ""
		b, known := fed[fkIDNum(pb.Block.Id)]
		fo, isFO := pb.Obj.(*forkable.ForkableObject)
		switch {
		case !known || !proto.Equal(pb.Block, c06PB(b)):
			why = "block is not the received block (id in full, number, parent, lib, time, payload)"
		case !isFO:
			why = "object is not a ForkableObject"
		case fo.WrappedObject() != interface{}(brToken(b.ID)):
			why = fmt.Sprintf("wrapped object %v is not the object received with the block", fo.WrappedObject())
		case fo.Cursor().Step != fo.Step():
			why = fmt.Sprintf("object step %d, cursor step %d", fo.Step(), fo.Cursor().Step)
		case fo.FinalBlockHeight() != fo.Cursor().LIB.Num():
			why = fmt.Sprintf("final block height %d, cursor LIB %d", fo.FinalBlockHeight(), fo.Cursor().LIB.Num())
		case !c06RefExact(fo.Cursor().Block) || !c06RefExact(fo.Cursor().HeadBlock) || !c06RefExact(fo.Cursor().LIB) || !c06RefExact(fo.ReorgJunctionBlock()):
			why = "a cursor / junction reference does not carry the full block id"
		case len(fo.StepBlocks) != 0:
			why = "a burst item claims to be part of a multi-block step (StepBlocks)"
		}
		if why != "" {
			if i < len(evs) {
				evs[i].Blk.ID |= brForeign
			}
			if first == "" {
				first = fmt.Sprintf("item %d (step %d, block #%d %s): %s", i, evs[i].Step, pb.Block.Number, pb.Block.Id, why)
			}
		}
	}
	return first
}
type brObs struct {
	Steps   []fkStepObs `json:"steps"`
	Answers []brAnswer  `json:"answers"`
}

func brEventsOf(blocks []*bstream.PreprocessedBlock) []fkEvent {
	out := []fkEvent{}
	for _, pb := range blocks {
		fo := pb.Obj.(*forkable.ForkableObject)
		c := fo.Cursor()
		// W3: the cursor's own step is observed too (fkCursorBlk: a cursor whose step is not the event's has no valid cursor block)
		ev := fkEvent{Step: int(fo.Step()), Blk: fkFromPB(pb.Block), CBlk: fkCursorBlk(c, fo.Step()), Head: fkRefOf(c.HeadBlock), Lib: fkRefOf(c.LIB),
			Idx: fo.StepIndex, Count: fo.StepCount, CStep: int(c.Step)}
		if j := fo.ReorgJunctionBlock(); j != nil {
			r := fkRefOf(j)
			ev.Junc = &r
		}
		out = append(out, ev)
	}
	return out
}

func brRun(in *brInput) *brObs {
	saved := bstream.GetProtocolFirstStreamableBlock
	bstream.GetProtocolFirstStreamableBlock = in.First
	defer func() { bstream.GetProtocolFirstStreamableBlock = saved }()

	obs := &brObs{}
	rec := &fkRecorder{failAt: -1}
	p := forkable.New(rec, forkable.HoldBlocksUntilLIB(), forkable.WithKeptFinalBlocks(in.Kept))
	type gev struct {
		ev   fkEvent
		step int
	}
	var all []gev
	reqs := append([]brReq{}, in.Reqs...)
	sort.SliceStable(reqs, func(i, j int) bool { return reqs[i].M < reqs[j].M })
	ri := 0
	universe := map[uint64]bool{}
	fed := map[uint64]fkBlock{}
	var uni []uint64
	for _, b := range in.History {
		fed[b.ID] = b
		if !universe[b.ID] && b.ID != 0 {
			universe[b.ID] = true
			uni = append(uni, b.ID)
		}
	}
	sort.Slice(uni, func(i, j int) bool { return uni[i] < uni[j] })
	// consumer stack heights (for start selection): recomputed from events
	for m := 1; m <= len(in.History); m++ {
		b := in.History[m-1]
		var evs []fkEvent
		rec.cur = &evs
		st := fkStepObs{Result: "ok"}
		func() {
			defer func() {
				if r := recover(); r != nil {
					st.Result = "panic"
				}
			}()
			// W3: blocks carry a payload and travel with an object, as behind a preprocessor
			if err := p.ProcessBlock(c06PB(b), brToken(b.ID)); err != nil {
				st.Result = "selfparent"
			}
		}()
		if evs == nil {
			evs = []fkEvent{}
		}
		st.Events = evs
		if num, id, _, lib, err := p.HeadInfo(); err == nil {
			st.HeadOK = true
			st.Head = fkRef{fkIDNum(id), num}
			st.HeadLib = lib
		}
		st.HeadNum = p.HeadNum()
		obs.Steps = append(obs.Steps, st)
		for _, e := range evs {
			all = append(all, gev{e, m})
		}
		if st.Result != "ok" {
			break
		}
		for ri < len(reqs) && reqs[ri].M <= m {
			rq := reqs[ri]
			ri++
			if rq.M < m {
				continue
			}
			ans := brAnswer{Kind: rq.Kind, M: m, K: -1}
			for _, id := range uni {
				if p.GetBlockByHash(fkIDStr(id)) != nil {
					ans.Stored = append(ans.Stored, id)
				}
			}
			func() {
				defer func() {
					if r := recover(); r != nil {
						ans.Lowest = 0
					}
				}()
				ans.Lowest = p.LowestBlockNum()
			}()
			switch rq.Kind {
			case "cursor", "through":
				var cand []int
				for i, g := range all {
					if rq.Final {
						if g.ev.Step == 16 {
							cand = append(cand, i)
						}
					} else if g.ev.Step == 1 || g.ev.Step == 2 {
						cand = append(cand, i)
					}
				}
				if rq.Undo && !rq.Final {
					var u []int
					for _, i := range cand {
						if all[i].ev.Step == 2 {
							u = append(u, i)
						}
					}
					if len(u) > 0 {
						cand = u
					}
				}
				if len(cand) == 0 {
					continue
				}
				k := cand[rq.KSel%len(cand)]
				e := all[k].ev
				ans.K = k
				ans.Cursor = brCursor{e.Step, e.CBlk, e.Head, e.Lib}
				cur := &bstream.Cursor{Step: bstream.StepType(e.Step), Block: bstream.NewBlockRef(fkIDStr(e.CBlk.ID), e.CBlk.Num),
					HeadBlock: bstream.NewBlockRef(fkIDStr(e.Head.ID), e.Head.Num), LIB: bstream.NewBlockRef(fkIDStr(e.Lib.ID), e.Lib.Num)}
				if cb := p.CanonicalBlockAt(e.Lib.Num); cb != nil && fkIDNum(cb.Id) == e.Lib.ID {
					ans.LibOn = true
				}
				ans.BlkRet = p.GetBlockByHash(fkIDStr(e.CBlk.ID)) != nil
				func() {
					defer func() {
						if r := recover(); r != nil {
							ans.Panic = true
						}
					}()
					cb := func(blocks []*bstream.PreprocessedBlock) {
						ans.Served = true
						ans.Events = brEventsOf(blocks)
						ans.ObjErr = brObjCheck(fed, blocks, ans.Events)
					}
					var err error
					if rq.Kind == "cursor" {
						err = p.CallWithBlocksFromCursor(cur, cb)
					} else {
						// start: a height between the cursor LIB and the cursor block (+ a little outside)
						lo := e.Lib.Num
						span := int(e.CBlk.Num-lo) + 3
						start := lo + uint64(rq.SSel%span)
						if start > 0 && rq.SSel%7 == 0 {
							start--
						}
						ans.Start = start
						// hub.SourceThroughCursor's shortcut
						if cur.Block.Num() < start {
							err = p.CallWithBlocksFromNum(start, cb, false)
						} else {
							err = p.CallWithBlocksThroughCursor(start, cur, cb)
						}
					}
					// W3: hub.Source*Cursor returns "no source" exactly when an error comes back: a callback call together
					// with an error (subscriber registered, nil returned), or neither, is an abnormal answer
					if ans.Served != (err == nil) {
						ans.ErrIncons = fmt.Sprintf("callback called: %v, error returned: %v", ans.Served, err)
						ans.Panic = true
					}
				}()
			case "num", "forks":
				lowest := ans.Lowest
				base := uint64(0)
				if lowest > 2 {
					base = lowest - 2
				}
				n := base + rq.Num
				ans.Start = n
				func() {
					defer func() {
						if r := recover(); r != nil {
							ans.Panic = true
						}
					}()
					if rq.Kind == "num" {
						_ = p.CallWithBlocksFromNum(n, func(blocks []*bstream.PreprocessedBlock) {
							ans.Served = true
							ans.Events = brEventsOf(blocks)
							ans.ObjErr = brObjCheck(fed, blocks, ans.Events)
						}, false)
					} else {
						_ = p.CallWithBlocksFromNum(n, func(blocks []*bstream.PreprocessedBlock) {
							ans.Served = true
							for _, pb := range blocks {
								ans.Forks = append(ans.Forks, fkFromPB(pb.Block))
							}
							canonForks(ans.Forks) // hubh.go: only runs of equal height are reordered (W1 audit)
						}, true)
					}
				}()
			}
			if ans.Events == nil {
				ans.Events = []fkEvent{}
			}
			obs.Answers = append(obs.Answers, ans)
		}
	}
	return obs
}

func coqBrCursor(c brCursor) string {
	return fmt.Sprintf("(mkCursor %s %s %s %s)", coqStep(c.Step), coqFkRef(c.Blk), coqFkRef(c.Head), coqFkRef(c.Lib))
}

func coqBrAnswer(a brAnswer) string {
	kind := map[string]int{"cursor": 0, "through": 1, "num": 2, "forks": 3}[a.Kind]
	evs := make([]string, len(a.Events))
	for i, e := range a.Events {
		evs[i] = coqFkEvent(e)
	}
	fk := make([]string, len(a.Forks))
	for i, b := range a.Forks {
		fk[i] = coqFkBlock(b)
	}
	k := a.K
	if k < 0 {
		k = 0
	}
	return fmt.Sprintf("(mkAns %d %d %d %s %d %s %s %s %s %s %d %s %s)", kind, a.M, k, coqBrCursor(a.Cursor), a.Start,
		coqBool(a.Served), coqList(evs), coqList(fk), coqBool(a.LibOn), coqBool(a.BlkRet), a.Lowest, coqNList(a.Stored), coqBool(a.Panic))
}

func coqBrCase(in *brInput, obs *brObs) string {
	hs := make([]string, len(in.History))
	for i, b := range in.History {
		hs[i] = coqFkBlock(b)
	}
	st := make([]string, len(obs.Steps))
	for i, s := range obs.Steps {
		st[i] = coqFkStep(s)
	}
	an := make([]string, len(obs.Answers))
	for i, a := range obs.Answers {
		an[i] = coqBrAnswer(a)
	}
	return fmt.Sprintf("mkBrCase %d %d %s %s %s", in.First, in.Kept, coqList(hs), coqList(st), coqList(an))
}

func brGen(prop string) func(r *Rng, i int, tier string) any {
	return func(r *Rng, i int, tier string) any {
		in := &brInput{Prop: prop}
		in.First = uint64([]int{0, 0, 1, 1, 2}[r.Intn(5)])
		in.Kept = []int{0, 0, 1, 2, 3, 5, 8}[r.Intn(7)]
		n := 4 + r.Intn(20)
		t := fkGenTree(r, n, "disc", in.First, false)
		var shape string
		in.History, shape = fkOrder(r, t, "disc")
		in.Shape = "disc/" + shape
		nreq := 6 + r.Intn(8)
		for j := 0; j < nreq; j++ {
			rq := brReq{M: 1 + r.Intn(len(in.History)), KSel: r.Intn(1 << 20), SSel: r.Intn(1 << 20), Num: uint64(r.Intn(14))}
			// reconnect late more often than early
			if r.Chance(50) {
				rq.M = len(in.History) - r.Intn(1+len(in.History)/3)
			}
			c := r.Intn(100)
			switch {
			case prop == "C09":
				if c < 65 {
					rq.Kind = "num"
				} else {
					rq.Kind = "forks"
				}
			case c < 30:
				rq.Kind = "cursor"
			case c < 50:
				rq.Kind = "cursor"
				rq.Undo = true
				if r.Chance(70) {
					rq.M = len(in.History) - r.Intn(2)
				}
			case c < 65:
				rq.Kind = "cursor"
				rq.Final = true
			case c < 90:
				rq.Kind = "through"
				rq.Undo = r.Chance(40)
			case c < 96:
				rq.Kind = "num"
			default:
				rq.Kind = "forks"
			}
			in.Reqs = append(in.Reqs, rq)
		}
		return in
	}
}

func brExec(raw json.RawMessage) (*Case, error) {
	var in brInput
	if err := json.Unmarshal(raw, &in); err != nil {
		return nil, err
	}
	obs := brRun(&in)
	cs := &Case{Obs: obs, Coq: coqBrCase(&in, obs)}
	served, nilans, undo := 0, 0, 0
	for _, a := range obs.Answers {
		if a.Served {
			served++
			for _, e := range a.Events {
				if e.Step == 2 {
					undo++
				}
			}
		} else {
			nilans++
		}
	}
	cs.Class = in.Shape
	cs.Nontrivial = served > 0
	cs.Key = string(raw)
	cs.Tags = []string{fmt.Sprintf("answers=%d served=%d nil=%d undo_events=%d", len(obs.Answers), served, nilans, undo)}
	return cs, nil
}

// the design-time failing triple: Undo cursor whose block has since become canonical and final
func brCorpus() []any {
	h := []fkBlock{{101, 10, 100, 9}, {102, 11, 101, 10}, {103, 12, 102, 10}, {104, 12, 102, 10}, {105, 13, 104, 10},
		{106, 13, 103, 10}, {107, 14, 106, 10}, {108, 15, 107, 12}, {109, 16, 108, 13}, {110, 17, 109, 14}}
	var reqs []brReq
	for m := 5; m <= len(h); m++ {
		reqs = append(reqs, brReq{Kind: "cursor", M: m, KSel: 0, Undo: true}, brReq{Kind: "cursor", M: m, KSel: 1, Undo: true})
	}
	// known finding C05-through-forked-below-hub-lib: 1a, 2a (LIB 1), 3b, 3a, 4a (LIB 2), 5a (LIB 3); cursor "new 3b"
	// (LIB 1a); target-cursor request from start 1 or 2: served after 4a (hub LIB = junction 2a), refused after 5a
	h2 := []fkBlock{{1, 1, 100, 0}, {2, 2, 1, 1}, {30, 3, 2, 1}, {3, 3, 2, 1}, {4, 4, 3, 2}, {5, 5, 4, 3}}
	var reqs2 []brReq
	for m := 5; m <= 6; m++ {
		for _, ss := range []int{1, 5, 2} { // start 2, 1, 3 for the cursor "new 3b"
			for ks := 0; ks < 4; ks++ {
				reqs2 = append(reqs2, brReq{Kind: "through", M: m, KSel: ks, SSel: ss})
			}
		}
	}
	return []any{&brInput{Prop: "C05", First: 0, Kept: 5, History: h, Shape: "corpus/undo-cursor-now-final", Reqs: reqs},
		&brInput{Prop: "C05", First: 1, Kept: 2, History: h2, Shape: "corpus/through-forked-below-hub-lib", Reqs: reqs2}}
}

func init() {
	props["C05"] = &Prop{Gen: brGen("C05"), Exec: brExec, Corpus: brCorpus}
	props["C09F"] = &Prop{Gen: brGen("C09"), Exec: brExec}
}
