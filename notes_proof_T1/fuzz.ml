open Model
let () = Random.init (try int_of_string Sys.argv.(1) with _ -> 1)
let ncases = try int_of_string Sys.argv.(2) with _ -> 100000
let firstbig = try Sys.argv.(4) = "big" with _ -> false
let tgt = try Sys.argv.(5) = "tgt" with _ -> false
let onlyreal = try Sys.argv.(7) = "real" with _ -> false
let coherent = try Sys.argv.(3) <> "incoh" with _ -> true
let ri_ n = Random.int n
let pick a = a.(ri_ (Array.length a))
let str_block b = Printf.sprintf "mkBlock %d %d %d %d" b.bid b.bnum b.bparent b.blib
let str_hist h = "[" ^ String.concat "; " (List.map str_block h) ^ "]"
let str_mode = function LExcl r -> Printf.sprintf "LExcl (mkR %d %d)" r.ri r.rn | LIncl r -> Printf.sprintf "LIncl (mkR %d %d)" r.ri r.rn | LNone -> "LNone"
let sb b = if b then "true" else "false"
let str_cfg c = Printf.sprintf "mkCfg %d %s %s %d %s (mkFilter %s %s %s %s) %s" c.c_first (sb c.c_incl) (sb c.c_hold) c.c_kept (sb c.c_alltrig)
  (sb c.c_filter.f_new) (sb c.c_filter.f_undo) (sb c.c_filter.f_irr) (sb c.c_filter.f_stalled) (match c.c_fail_at with None -> "None" | Some k -> Printf.sprintf "(Some %d)" k)
let str_step = function SNew -> "New" | SUndo -> "Undo" | SIrr -> "Irr" | SStalled -> "Stalled" | SNewIrr -> "NewIrr"
let str_res = function ROk -> "Ok" | RHandlerErr -> "HandlerErr" | RSelfParent -> "SelfParent" | RPanic -> "Panic" | RFuel -> "Fuel"
let str_trace t = String.concat " | " (List.map (fun (evs, r) -> "[" ^ String.concat "; " (List.map (fun e -> Printf.sprintf "%s %d" (str_step e.estep) e.eblk.bid) evs) ^ "]" ^ str_res r) t)

let gen () =
  let n = 2 + ri_ 6 in
  let h0 = pick [|3; 5; 10|] in
  let r0 = { ri = 1; rn = h0 } in
  let blocks = Array.make n { bid = 0; bnum = 0; bparent = 0; blib = 0 } in
  let maxh = ref h0 in
  for i = 0 to n - 1 do
    let id = i + 2 in
    let k = ri_ 100 in
    let (par, pnum) =
      if i > 0 && k < 70 then (let j = if ri_ 3 > 0 then i - 1 else ri_ i in (blocks.(j).bid, blocks.(j).bnum))
      else if k < 90 then (1, h0)
      else if k < 96 then (90 + ri_ 2, ri_ (h0 + 8))
      else (0, ri_ (h0 + 3)) in
    let num = if (not coherent) && par = 1 && ri_ 3 = 0 then ri_ (h0+2) else pnum + 1 + (if ri_ 2 = 0 then 0 else ri_ 5) in
    if num > !maxh then maxh := num;
    blocks.(i) <- { bid = id; bnum = num; bparent = par; blib = 0 }
  done;
  (* optionally the LIB block itself is in the universe *)
  let libblock = if ri_ 4 = 0 then [ { bid = 1; bnum = (if coherent then h0 else pick [|h0; h0+1; h0-1|]); bparent = pick [|0; 97|]; blib = ri_ (h0+1) } ] else [] in
  (* lib declarations *)
  let wildness = ri_ 4 in
  let decl i =
    let b = blocks.(i) in
    let anc = (* ancestor heights *)
      let rec go id acc = if id = 1 then h0 :: acc else
        match List.find_opt (fun x -> x.bid = id) (Array.to_list blocks) with
        | Some x -> go x.bparent (x.bnum :: acc) | None -> acc in
      Array.of_list (go b.bid []) in
    let k = ri_ 100 in
    let w = match wildness with 0 -> 10 | 1 -> 30 | 2 -> 60 | _ -> 100 in
    if k >= w then (if Array.length anc = 0 then 0 else pick anc)
    else match ri_ 5 with
      | 0 -> b.bnum + 1 + ri_ 6            (* above the head *)
      | 1 -> (if Array.length anc = 0 then 0 else pick anc) + 1   (* just above an ancestor *)
      | 2 -> max 0 (b.bnum - 1 - ri_ 3)
      | 3 -> ri_ (!maxh + 6)
      | _ -> (if Array.length anc = 0 then 0 else max 0 (pick anc - 1)) in
  for i = 0 to n - 1 do blocks.(i) <- { (blocks.(i)) with blib = decl i } done;
  let u = Array.to_list blocks @ libblock in
  let ua = Array.of_list u in
  (* arrival order: mostly topological with perturbations + duplicates *)
  let len = Array.length ua in
  let order = Array.init len (fun i -> i) in
  let swaps = match ri_ 3 with 0 -> 0 | 1 -> 1 + ri_ 2 | _ -> len in
  for _ = 1 to swaps do
    let i = ri_ len and j = ri_ len in
    let t = order.(i) in order.(i) <- order.(j); order.(j) <- t
  done;
  let h = ref [] in
  Array.iter (fun i -> h := ua.(i) :: !h; if ri_ 8 = 0 then h := ua.(ri_ len) :: !h) order;
  let h = List.rev !h in
  let h = if tgt then (let extra = List.init (ri_ (2*len+1)) (fun _ -> ua.(ri_ len)) in
                       match ri_ 3 with 0 -> h @ extra | 1 -> h @ h | _ -> h @ extra @ h) else h in
  let h = if ri_ 3 = 0 then h @ [ua.(ri_ len)] @ (if ri_ 2 = 0 then [ua.(ri_ len)] else []) else h in
  let mode = match ri_ 10 with 0 | 1 -> LIncl r0 | 2 | 3 -> LNone | _ -> LExcl r0 in
  let first = if firstbig then pick [|h0 + 1; h0 + 2; h0 + 3; h0+5; !maxh; 1000; 1000|] else pick [|0; 1; h0; h0 + 1; h0 + 3; !maxh; 1000; 2; 7|] in
  let cfg = { c_first = first; c_incl = (match mode with LIncl _ -> ri_ 8 > 0 | LExcl _ -> ri_ 8 = 0 | LNone -> false);
              c_hold = (match mode with LNone -> true | _ -> ri_ 2 = 0);
              c_kept = pick [|0; 0; 1; 2; 3; 5; 8; 100|]; c_alltrig = (if tgt then ri_ 5 > 0 else ri_ 2 = 0);
              c_filter = { f_new = true; f_undo = true; f_irr = ri_ 4 > 0; f_stalled = ri_ 4 > 0 };
              c_fail_at = (if ri_ 10 = 0 then Some (ri_ 8) else None) } in
  (cfg, mode, h)


let gen_dense () =
  let n = 3 + ri_ 3 in
  let h0 = pick [|0; 2; 3|] in
  let r0 = { ri = 1; rn = h0 } in
  let blocks = Array.make n { bid = 0; bnum = 0; bparent = 0; blib = 0 } in
  let maxh = ref h0 in
  for i = 0 to n - 1 do
    let id = i + 2 in
    let (par, pnum) =
      if i > 0 && ri_ 100 < 75 then (let j = if ri_ 2 > 0 then i - 1 else ri_ i in (blocks.(j).bid, blocks.(j).bnum))
      else if ri_ 100 < 92 then (1, h0) else (pick [|0; 90|], ri_ (h0 + 3)) in
    let num = if (not coherent) && par = 1 && ri_ 3 = 0 then ri_ (h0+2) else pnum + 1 + (if ri_ 3 = 0 then 1 else 0) in
    if num > !maxh then maxh := num;
    blocks.(i) <- { bid = id; bnum = num; bparent = par; blib = 0 }
  done;
  for i = 0 to n - 1 do blocks.(i) <- { (blocks.(i)) with blib = ri_ (!maxh + 3) } done;
  let libblock = if ri_ 6 = 0 then [ { bid = 1; bnum = (if coherent then h0 else pick [|h0; h0+1; max 0 (h0-1)|]); bparent = pick [|0; 97|]; blib = ri_ (h0+1) } ] else [] in
  let ua = Array.of_list (Array.to_list blocks @ libblock) in
  let len = Array.length ua in
  let order = Array.init len (fun i -> i) in
  if ri_ 2 = 0 then for i = len - 1 downto 1 do let j = ri_ (i+1) in let t = order.(i) in order.(i) <- order.(j); order.(j) <- t done
  else for _ = 1 to ri_ 3 do let i = ri_ len and j = ri_ len in let t = order.(i) in order.(i) <- order.(j); order.(j) <- t done;
  let base = List.map (fun i -> ua.(i)) (Array.to_list order) in
  (* insert re-feeds at random positions *)
  let h = List.concat_map (fun b -> if ri_ 4 = 0 then [b; ua.(ri_ len)] else [b]) base in
  let h = h @ List.init (ri_ (len + 2)) (fun _ -> ua.(ri_ len)) in
  let mode = match ri_ 10 with 0 -> LIncl r0 | 1 | 2 -> LNone | _ -> LExcl r0 in
  let first = if firstbig then pick [|1000; 1000; !maxh; ri_ (!maxh + 1)|] else pick [|0; 1; 2; h0; h0+1; ri_ (!maxh+1)|] in
  let cfg = { c_first = first; c_incl = (match mode with LIncl _ -> ri_ 8 > 0 | LExcl _ -> ri_ 8 = 0 | LNone -> false);
              c_hold = (match mode with LNone -> true | _ -> ri_ 2 = 0);
              c_kept = pick [|0; 0; 1; 2; 3; 100|]; c_alltrig = ri_ 10 < 7;
              c_filter = { f_new = true; f_undo = true; f_irr = ri_ 4 > 0; f_stalled = ri_ 4 > 0 };
              c_fail_at = (if ri_ 12 = 0 then Some (ri_ 8) else None) } in
  (cfg, mode, h)
let dense = try Sys.argv.(6) = "dense" with _ -> false

let () =
  let nmonofalse = ref 0 and nrealcases = ref 0 and nmonofalse_strict = ref 0 and nstrict = ref 0 and shownm = ref 0 in
  let ndisc = ref 0 and nrefeed = ref 0 and nerr = ref 0 and ndouble = ref 0 and nreal = ref 0 in
  let nwf = ref 0 and nwild = ref 0 and nfail = ref 0 and nc02 = ref 0 and nbad = ref 0 and nev = ref 0 in
  let shown = ref 0 and shown2 = ref 0 and shown3 = ref 0 in
  for _ = 1 to ncases do
    let (cfg, mode, h) = if dense then gen_dense () else gen () in
    if wf_b h then begin
      incr nwf;
      let wild = not (lib_ok_b mode h) in
      if wild then incr nwild;
      let t = fk_run cfg (fs_init mode) h in
      let real = List.for_all (fun b -> cfg.c_first <= b.bnum) h in
      let strict = List.for_all (fun b -> cfg.c_first < b.bnum) h in
      let mono = lib_mono_b (cfg_nofail cfg) (fs_init mode) h in
      let cohw = (match mode with LNone -> true | LExcl r | LIncl r -> List.exists (fun b -> b.bid = r.ri) h || List.for_all (fun b -> b.bparent <> r.ri || r.rn < b.bnum) h) in
      let real = real && cohw in
      if real then incr nrealcases; if strict then incr nstrict;
      if real && not mono then begin incr nmonofalse;
        if !shownm < 3 then begin incr shownm; Printf.printf "MONO FALSE (first<=heights) strict=%b\n  cfg=%s\n  mode=%s\n  h=%s\n  t=%s\n%!" strict (str_cfg cfg) (str_mode mode) (str_hist h) (str_trace t) end end;
      if strict && not mono then incr nmonofalse_strict;
      if List.exists (fun (evs, _) -> evs <> []) t then incr nev;
      let d = c01_discipline_b mode t and r = c01_refeed_b [] h t and e = c01_error_b cfg.c_fail_at 0 t in
      if not (d && r && e) then begin
        incr nfail;
        if not d then incr ndisc; if not r then incr nrefeed; if not e then incr nerr;
        let news = List.concat_map (fun (evs, _) -> List.filter_map (fun ev -> if ev.estep = SNew then Some ev.eblk.bid else None) evs) t in
        let rec dup = function [] -> false | x :: l -> List.mem x l || dup l in
        (* double delivery as New without an Undo in between is a discipline failure; with undo/redo it is legal, so count only ids New'd twice where the block was not redone: approximate by ids whose New count exceeds Undo count + 1 *)
        let undos = List.concat_map (fun (evs, _) -> List.filter_map (fun ev -> if ev.estep = SUndo then Some ev.eblk.bid else None) evs) t in
        let cnt x l = List.length (List.filter ((=) x) l) in
        if List.exists (fun x -> cnt x news > cnt x undos + 1) news then incr ndouble;
        ignore dup;
        if List.for_all (fun b -> cfg.c_first <= b.bnum) h then incr nreal;
        let real = List.for_all (fun b -> cfg.c_first <= b.bnum) h in if (if onlyreal then real else !shown < 20) then begin incr shown; Printf.printf "real=%b " real;
          Printf.printf "C01 FAIL disc=%b refeed=%b err=%b wild=%b\n  cfg=%s\n  mode=%s\n  h=%s\n  t=%s\n%!" d r e wild (str_cfg cfg) (str_mode mode) (str_hist h) (str_trace t) end
      end;
      if List.exists (fun (_, r) -> r = RPanic || r = RFuel || r = RSelfParent) t then begin
        incr nbad;
        if !shown3 < 5 then begin incr shown3;
          Printf.printf "BAD RESULT wild=%b\n  cfg=%s\n  mode=%s\n  h=%s\n  t=%s\n%!" wild (str_cfg cfg) (str_mode mode) (str_hist h) (str_trace t) end
      end;
      if cfg.c_filter.f_irr && not (c02_b mode h t) then begin
        incr nc02;
        if !shown2 < 3 then begin incr shown2;
          Printf.printf "C02 fail wild=%b\n  cfg=%s\n  mode=%s\n  h=%s\n  t=%s\n%!" wild (str_cfg cfg) (str_mode mode) (str_hist h) (str_trace t) end
      end
    end
  done;
  Printf.printf "disc=%d refeed=%d err=%d double=%d first_le_all_heights=%d\n" !ndisc !nrefeed !nerr !ndouble !nreal;
  Printf.printf "first<=heights: %d cases, mono false %d; first<heights: %d cases, mono false %d\n" !nrealcases !nmonofalse !nstrict !nmonofalse_strict;
  Printf.printf "cases=%d wf=%d wild=%d with_events=%d c01fail=%d badresult=%d c02fail=%d\n" ncases !nwf !nwild !nev !nfail !nbad !nc02
