// T1: what the REAL Forkable does with a block that declares a LIB number ABOVE ITS OWN HEIGHT ("wild" LIB
// declaration, outside the class lib_ok of C02 but inside the quantifier of C01, which puts no condition
// on declared LIB numbers).
// Not part of /repo: copy into a scratch copy of /repo/forkable and run
//   GOFLAGS=-mod=mod GOPROXY=off GOSUMDB=off GOTOOLCHAIN=local go test ./forkable -run TestT1 -v
// The history is the witness of coq/Properties/C01_Wild.v (theorem c01_wild_lib_refuted); the expected event
// lists are the ones the Coq model computes (Example c01_wild_trace).
//
//   LIB r0 = (1, 10) exclusive, keptFinalBlocks = 2, EnsureAllBlocksTriggerLongestChain,
//   bstream.GetProtocolFirstStreamableBlock = 12
//   B = (3, num 12, parent 2, lib 10)   stored, not linkable yet
//   A = (2, num 11, parent 1, lib 14)   New A; BlockInCurrentChain(A, 14) = (A, 14): the LIB becomes (id 2, num 14),
//                                       a number above every block of the chain
//   X = (5, num 13, parent 3, lib 10)   13 < LIBNum 14 and something was sent: silently dropped, NOT stored
//   C = (4, num 14, parent 3, lib 12)   New B, New C; the LIB moves to (3, 12): the LIB NUMBER DECREASES 14 -> 12
//   X again                             13 >= 12, never stored: processed like a new block: Undo C, New X
//
// C01's clause "feeding a block a second time delivers nothing" fails (the first feeding of X was swallowed by
// the too-high LIB number, the second one is delivered).  The Undo/New discipline itself is intact.
package forkable

import (
	"fmt"
	"reflect"
	"testing"
	"time"

	"github.com/streamingfast/bstream"
	pbbstream "github.com/streamingfast/bstream/pb/sf/bstream/v1"
	"google.golang.org/protobuf/types/known/timestamppb"
)

type t1blk struct{ id, num, parent, lib uint64 }

func t1id(n uint64) string {
	if n == 0 {
		return ""
	}
	return fmt.Sprintf("%020x", n)
}

func t1pb(b t1blk) *pbbstream.Block {
	return &pbbstream.Block{Id: t1id(b.id), Number: b.num, ParentId: t1id(b.parent), LibNum: b.lib,
		Timestamp: timestamppb.New(time.Unix(1600000000+int64(b.num), 0))}
}

type t1rec struct{ cur *[]string }

func (h *t1rec) ProcessBlock(blk *pbbstream.Block, obj interface{}) error {
	fo := obj.(*ForkableObject)
	var id uint64
	fmt.Sscanf(blk.Id, "%x", &id)
	*h.cur = append(*h.cur, fmt.Sprintf("%s:%d", fo.Step().String(), id))
	return nil
}

// per incoming block: the delivered events and the LIB of the forkdb after the call
func t1run(t *testing.T, hist []t1blk, opts ...Option) ([][]string, []string) {
	rec := &t1rec{}
	p := New(rec, opts...)
	var out [][]string
	var libs []string
	for _, b := range hist {
		evs := []string{}
		rec.cur = &evs
		if err := p.ProcessBlock(t1pb(b), nil); err != nil {
			t.Fatalf("block %d: %v", b.id, err)
		}
		out = append(out, evs)
		var lid uint64
		fmt.Sscanf(p.forkDB.LIBID(), "%x", &lid)
		libs = append(libs, fmt.Sprintf("%d@%d", lid, p.forkDB.LIBNum()))
	}
	return out, libs
}

const t1all = bstream.StepNew | bstream.StepUndo | bstream.StepIrreversible | bstream.StepStalled

var (
	t1A = t1blk{2, 11, 1, 14}
	t1B = t1blk{3, 12, 2, 10}
	t1X = t1blk{5, 13, 3, 10}
	t1C = t1blk{4, 14, 3, 12}
)

func TestT1WildLibRefeedDelivers(t *testing.T) {
	old := bstream.GetProtocolFirstStreamableBlock
	bstream.GetProtocolFirstStreamableBlock = 12
	defer func() { bstream.GetProtocolFirstStreamableBlock = old }()

	got, libs := t1run(t, []t1blk{t1B, t1A, t1X, t1C, t1X},
		WithExclusiveLIB(bstream.NewBlockRef(t1id(1), 10)), WithFilters(t1all), WithKeptFinalBlocks(2),
		EnsureAllBlocksTriggerLongestChain())
	want := [][]string{
		{},
		{"new:2", "irreversible:2"},
		{}, // X dropped: 13 < LIBNum() == 14
		{"new:3", "new:4", "irreversible:3"},
		{"undo:4", "new:5"}, // X fed a second time: delivered
	}
	wantLibs := []string{"1@10", "2@14", "2@14", "3@12", "3@12"}
	t.Logf("events %v", got)
	t.Logf("LIB after each call %v", libs)
	if !reflect.DeepEqual(got, want) {
		t.Fatalf("got  %v\nwant %v", got, want)
	}
	if !reflect.DeepEqual(libs, wantLibs) {
		t.Fatalf("libs got  %v\nwant %v", libs, wantLibs)
	}
}

// the same history with the first streamable block at 0: ReversibleSegment's guard
// (first streamable < num < LIBNum => nil) refuses the chain B, C: nothing is delivered after A, for ever
func TestT1WildLibFirstStreamableZero(t *testing.T) {
	old := bstream.GetProtocolFirstStreamableBlock
	bstream.GetProtocolFirstStreamableBlock = 0
	defer func() { bstream.GetProtocolFirstStreamableBlock = old }()

	got, libs := t1run(t, []t1blk{t1B, t1A, t1X, t1C, t1X},
		WithExclusiveLIB(bstream.NewBlockRef(t1id(1), 10)), WithFilters(t1all), WithKeptFinalBlocks(2),
		EnsureAllBlocksTriggerLongestChain())
	want := [][]string{{}, {"new:2", "irreversible:2"}, {}, {}, {}}
	t.Logf("events %v", got)
	t.Logf("LIB after each call %v", libs)
	if !reflect.DeepEqual(got, want) {
		t.Fatalf("got  %v\nwant %v", got, want)
	}
}

// Witness 2 of coq/Properties/C01_Wild.v (c01_incoherent_lib_refeed_witness): the configured LIB (1, 2) is
// INCOHERENT with the history (its child 2 has number 0); declarations are ancestor heights; first streamable 0,
// keptFinalBlocks 0.  Block 3 (num 1) is dropped under LIBNum 2, the LIB then moves to (2, 0), block 3 fed again
// is delivered.
func TestT1IncoherentLibRefeedDelivers(t *testing.T) {
	old := bstream.GetProtocolFirstStreamableBlock
	bstream.GetProtocolFirstStreamableBlock = 0
	defer func() { bstream.GetProtocolFirstStreamableBlock = old }()

	got, libs := t1run(t, []t1blk{{2, 0, 1, 2}, {3, 1, 2, 1}, {4, 2, 2, 0}, {3, 1, 2, 1}},
		WithExclusiveLIB(bstream.NewBlockRef(t1id(1), 2)), WithFilters(t1all), WithKeptFinalBlocks(0),
		EnsureAllBlocksTriggerLongestChain())
	want := [][]string{{"new:2"}, {}, {"new:4", "irreversible:2"}, {"undo:4", "new:3", "irreversible:3"}}
	wantLibs := []string{"1@2", "1@2", "2@0", "3@1"}
	t.Logf("events %v", got)
	t.Logf("LIB after each call %v", libs)
	if !reflect.DeepEqual(got, want) {
		t.Fatalf("got  %v\nwant %v", got, want)
	}
	if !reflect.DeepEqual(libs, wantLibs) {
		t.Fatalf("libs got  %v\nwant %v", libs, wantLibs)
	}
}

// Witness 3 of coq/Properties/C01_Wild.v (c01_wild_discovery_refeed_witness): the hub's configuration (no LIB
// configured, HoldBlocksUntilLIB).  G = (1, num 10, parent 9, lib 10) declares its own height: it becomes the LIB
// (New + Irreversible); then the history of witness 1.
func TestT1WildLibRefeedDeliversDiscovery(t *testing.T) {
	old := bstream.GetProtocolFirstStreamableBlock
	bstream.GetProtocolFirstStreamableBlock = 12
	defer func() { bstream.GetProtocolFirstStreamableBlock = old }()

	got, libs := t1run(t, []t1blk{{1, 10, 9, 10}, t1B, t1A, t1X, t1C, t1X},
		HoldBlocksUntilLIB(), WithFilters(t1all), WithKeptFinalBlocks(2), EnsureAllBlocksTriggerLongestChain())
	want := [][]string{
		{"new:1", "irreversible:1"},
		{},
		{"new:2", "irreversible:2"},
		{},
		{"new:3", "new:4", "irreversible:3"},
		{"undo:4", "new:5"},
	}
	wantLibs := []string{"1@10", "1@10", "2@14", "2@14", "3@12", "3@12"}
	t.Logf("events %v", got)
	t.Logf("LIB after each call %v", libs)
	if !reflect.DeepEqual(got, want) {
		t.Fatalf("got  %v\nwant %v", got, want)
	}
	if !reflect.DeepEqual(libs, wantLibs) {
		t.Fatalf("libs got  %v\nwant %v", libs, wantLibs)
	}
}

// Witness 4 of coq/Properties/C01_Wild.v (c01_empty_lib_id_witness): a configured LIB whose ID is empty
// (HasLIB() is true because the number is not 0).  Block 1 has an empty parent id: it links to the LIB id "",
// AddLink does not recognise it when it is fed again, it is delivered as New again.
func TestT1EmptyLibID(t *testing.T) {
	old := bstream.GetProtocolFirstStreamableBlock
	bstream.GetProtocolFirstStreamableBlock = 0
	defer func() { bstream.GetProtocolFirstStreamableBlock = old }()

	got, _ := t1run(t, []t1blk{{1, 6, 0, 5}, {1, 6, 0, 5}, {2, 7, 1, 5}, {1, 6, 0, 5}, {3, 8, 2, 5}},
		WithExclusiveLIB(bstream.NewBlockRef("", 5)), WithFilters(t1all), WithKeptFinalBlocks(0),
		EnsureAllBlocksTriggerLongestChain())
	want := [][]string{{"new:1"}, {"new:1"}, {"new:2"}, {"new:1"}, {"new:2", "new:3"}}
	t.Logf("events %v", got)
	if !reflect.DeepEqual(got, want) {
		t.Fatalf("got  %v\nwant %v", got, want)
	}
}
