From BV Require Import Base.Prelude Model.Block Model.ForkDB Model.Forkable Spec.Consumer Spec.Universe Spec.C01_Wild_Spec.
Require Import Coq.extraction.Extraction Coq.extraction.ExtrOcamlBasic Coq.extraction.ExtrOcamlNatInt Coq.extraction.ExtrOcamlZInt.
Extraction Language OCaml.
Extraction "model.ml" fk_run fk_states fs_init c01_discipline_b c01_refeed_b c01_error_b c02_b c04_b wf_b lib_ok_b all_events lib_mono_b cfg_nofail.
