// R4: what the REAL Forkable does with blocks whose parent id is empty ("roots") when they are fed again.
// Not part of /repo: copy into a scratch copy of /repo/forkable and run
//   go test ./forkable -run TestR4 -v
// The histories are those of coq/Properties/C01_Roots.v (rt_hist, rt_hist_incl, rd_hist, rd_hist_own); the
// expected event lists are the ones the Coq model computes (Example c01_roots_nonvacuous /
// c01_discovery_roots_nonvacuous).  AddLink does not recognise a stored root (links[id] == ""), stores it
// again with a fresh ForkableBlock, and nothing is delivered: the root is never on a non-empty longest chain.
package forkable

import (
	"fmt"
	"reflect"
	"testing"
	"time"

	"github.com/streamingfast/bstream"
	pbbstream "github.com/streamingfast/bstream/pb/sf/bstream/v1"
	"google.golang.org/protobuf/types/known/timestamppb"
)

type r4blk struct{ id, num, parent, lib uint64 }

func r4id(n uint64) string {
	if n == 0 {
		return ""
	}
	return fmt.Sprintf("%020x", n)
}

func r4pb(b r4blk) *pbbstream.Block {
	return &pbbstream.Block{Id: r4id(b.id), Number: b.num, ParentId: r4id(b.parent), LibNum: b.lib,
		Timestamp: timestamppb.New(time.Unix(1600000000+int64(b.num), 0))}
}

type r4rec struct{ cur *[]string }

func (h *r4rec) ProcessBlock(blk *pbbstream.Block, obj interface{}) error {
	fo := obj.(*ForkableObject)
	var id uint64
	fmt.Sscanf(blk.Id, "%x", &id)
	*h.cur = append(*h.cur, fmt.Sprintf("%s:%d", fo.Step().String(), id))
	return nil
}

func r4run(t *testing.T, hist []r4blk, opts ...Option) [][]string {
	rec := &r4rec{}
	p := New(rec, opts...)
	var out [][]string
	for _, b := range hist {
		evs := []string{}
		rec.cur = &evs
		if err := p.ProcessBlock(r4pb(b), nil); err != nil {
			t.Fatalf("block %d: %v", b.id, err)
		}
		out = append(out, evs)
	}
	return out
}

var r4hist = []r4blk{
	{50, 12, 0, 10}, {2, 11, 1, 10}, {3, 12, 2, 10}, {50, 12, 0, 10}, {51, 13, 50, 10},
	{4, 12, 2, 10}, {5, 14, 4, 11}, {50, 12, 0, 10}, {51, 13, 50, 10}, {60, 5, 0, 3},
	{6, 15, 5, 14}, {50, 12, 0, 10}, {52, 16, 51, 10}, {70, 16, 0, 16}, {70, 16, 0, 16}, {7, 16, 6, 14},
}

const r4all = bstream.StepNew | bstream.StepUndo | bstream.StepIrreversible | bstream.StepStalled

func TestR4RootsExclusive(t *testing.T) {
	got := r4run(t, r4hist, WithExclusiveLIB(bstream.NewBlockRef(r4id(1), 10)), WithFilters(r4all), WithKeptFinalBlocks(0))
	want := [][]string{
		{}, {"new:2"}, {"new:3"}, {}, {}, {},
		{"undo:3", "new:4", "new:5", "irreversible:2"}, {}, {}, {},
		{"new:6", "irreversible:4", "irreversible:5", "stalled:3", "stalled:50", "stalled:51"},
		{}, {}, {}, {}, {"new:7"},
	}
	if !reflect.DeepEqual(got, want) {
		t.Fatalf("got  %v\nwant %v", got, want)
	}
}

func TestR4RootLIBInclusive(t *testing.T) {
	hist := append([]r4blk{{1, 10, 0, 9}, {1, 10, 0, 9}}, r4hist...)
	hist = append(hist, r4blk{1, 10, 0, 9})
	got := r4run(t, hist, WithInclusiveLIB(bstream.NewBlockRef(r4id(1), 10)), WithFilters(r4all), WithKeptFinalBlocks(3))
	if !reflect.DeepEqual(got[0], []string{"new:1", "irreversible:1"}) || len(got[1]) != 0 || len(got[len(got)-1]) != 0 {
		t.Fatalf("got %v", got)
	}
	n := 0
	for _, evs := range got {
		for _, e := range evs {
			if e == "new:1" || e == "new:50" || e == "new:51" || e == "new:52" || e == "new:60" || e == "new:70" {
				n++
			}
		}
	}
	if n != 1 {
		t.Fatalf("roots delivered as new %d times: %v", n, got)
	}
}

func TestR4RootsDiscovery(t *testing.T) {
	hist := []r4blk{
		{50, 12, 0, 10}, {3, 12, 2, 10}, {50, 12, 0, 10}, {1, 10, 0, 8}, {2, 11, 1, 8}, {1, 10, 0, 8}, {4, 12, 2, 10},
		{1, 10, 0, 8}, {50, 12, 0, 10}, {5, 13, 4, 11}, {51, 13, 50, 10}, {50, 12, 0, 10}, {6, 14, 5, 13}, {50, 12, 0, 10},
	}
	got := r4run(t, hist, HoldBlocksUntilLIB(), WithFilters(r4all), WithKeptFinalBlocks(1))
	want := [][]string{
		{}, {}, {}, {}, {}, {}, {"new:2", "new:4", "irreversible:1"},
		{}, {}, {"new:5", "irreversible:2"}, {}, {},
		{"new:6", "irreversible:4", "irreversible:5", "stalled:3", "stalled:50", "stalled:51"}, {},
	}
	if !reflect.DeepEqual(got, want) {
		t.Fatalf("got  %v\nwant %v", got, want)
	}
	own := []r4blk{{50, 12, 0, 10}, {1, 10, 0, 10}, {1, 10, 0, 10}, {2, 11, 1, 10}, {50, 12, 0, 10}, {3, 12, 2, 11}, {1, 10, 0, 10}, {50, 12, 0, 10}}
	got = r4run(t, own, HoldBlocksUntilLIB(), WithFilters(r4all), WithKeptFinalBlocks(0))
	want = [][]string{{}, {"new:1", "irreversible:1"}, {}, {"new:2"}, {}, {"new:3", "irreversible:2"}, {}, {}}
	if !reflect.DeepEqual(got, want) {
		t.Fatalf("own: got  %v\nwant %v", got, want)
	}
}

// OUTSIDE the quantifier of C01 (no LIB configured and no hold-until-LIB: the "pass-through" mode): here the
// LIB id is "" and ReversibleSegment from a root DOES reach it (cur == f.libRef.ID() == ""), so a root is
// delivered; fed again it is stored again with sentAsNew = false and is delivered as New a SECOND and THIRD
// time (the model computes exactly this list).  With a non-empty parent id the duplicates are ignored.
func TestR4PassThroughRootDeliveredAgain(t *testing.T) {
	hist := []r4blk{{1, 1, 0, 0}, {1, 1, 0, 0}, {2, 2, 1, 0}, {1, 1, 0, 0}, {3, 3, 2, 0}}
	got := r4run(t, hist, WithFilters(r4all))
	want := [][]string{{"new:1"}, {}, {"new:1", "new:2"}, {}, {"new:1", "new:3"}}
	if !reflect.DeepEqual(got, want) {
		t.Fatalf("got  %v\nwant %v", got, want)
	}
	got = r4run(t, hist, WithFilters(r4all), EnsureAllBlocksTriggerLongestChain())
	want = [][]string{{"new:1"}, {"new:1"}, {"new:2"}, {"new:1"}, {"new:2", "new:3"}}
	if !reflect.DeepEqual(got, want) {
		t.Fatalf("alltrig: got  %v\nwant %v", got, want)
	}
	// the same history with a non-empty (unknown) parent id: duplicates deliver nothing
	hist = []r4blk{{1, 1, 9, 0}, {1, 1, 9, 0}, {2, 2, 1, 0}, {1, 1, 9, 0}, {3, 3, 2, 0}}
	got = r4run(t, hist, WithFilters(r4all))
	want = [][]string{{"new:1"}, {}, {"new:2"}, {}, {"new:3"}}
	if !reflect.DeepEqual(got, want) {
		t.Fatalf("non-root: got  %v\nwant %v", got, want)
	}
}
